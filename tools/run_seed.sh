#!/bin/bash
# usage: run_seed.sh <patch file> <property ids...> : applies the seeded change to /repo, runs the quick tier of the given checks, reverts /repo
cd /verif
[ -z "$(git -C /repo status --short)" ] || { echo "/repo not clean"; exit 2; }
git -C /repo apply $1 || { echo "cannot apply to /repo"; exit 2; }
P=$1; shift
for id in "$@"; do
  out=$(./check $id --tier ${TIER:-quick} 2>&1); code=$?
  echo "CHECK $id exit=$code :: $(echo "$out" | grep -E 'VIOLATION|quick:|thorough:' | head -2 | tr '\n' ' ')"
  echo "$out" | grep -B2 "^VIOLATION" | grep -v "^VIOLATION" | cut -c1-400 | head -3
done
git -C /repo checkout -- .
git -C /repo status --short
