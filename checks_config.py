# Per-property configuration of the driver: which Go tests make up the check,
# case counts per shard (rapid -rapid.checks), shard counts, race builds.
# tests: list of (TestName, checks_per_shard or 0 for non-rapid tests run once)

TRUST = [
    "gqlparser v2.5.1 parser/validator/formatter (also used by pebbles) is trusted",
    "the harness's own reference executor / fakes / codecs are self-tested (TestSelf*)",
    "Go runtime, scheduler and race detector are trusted",
]

CONFIG = {
    "C16": {
        "level": "exploration",
        "assumptions": TRUST + ["the expected answer is computed by the harness's spec resolver (self-tested) over the schema the real merger returns for the same inputs",
                                "lists in introspection answers are compared order-insensitively; an empty description and a null description are not distinguished"],
        "quick": {"tests": [("TestC16", 800)], "shards": 4, "timeout": 600},
        "thorough": {"tests": [("TestC16", 10000)], "shards": 16, "timeout": 2400},
    },
    "C15": {
        "level": "exploration",
        "assumptions": TRUST + ["the downstream is the harness's spec-compliant introspection responder (self-tested against the harness's standard client: TestSelfIntrospection)",
                                "@specifiedBy and applied (non-definition) directives are not compared: the statement does not list them and introspection cannot express the latter",
                                "a start-up error is accepted only for schemas with wrappers deeper than the introspection query's ofType chain"],
        "quick": {"tests": [("TestSelfIntrospection", 300), ("TestC15", 2500)], "shards": 4, "timeout": 600},
        "thorough": {"tests": [("TestSelfIntrospection", 2000), ("TestC15", 30000)], "shards": 16, "timeout": 2400, "fuzz": [("FuzzIntrospectionDecode", 120)]},
    },
    "C08": {
        "level": "exploration",
        "gates_of": ["C01"],
        "assumptions": TRUST + ["interleavings of the per-operation goroutines are varied through content-keyed delays and failures at the fakes, not enumerated", "the gateway is stateless between requests apart from the plan cache, so 'alone' is measured on the same gateway afterwards"],
        "quick": {"tests": [("TestC08", 1500)], "shards": 4, "timeout": 600},
        "thorough": {"tests": [("TestC08", 10000)], "shards": 16, "timeout": 3000, "race": True},
    },
    "C13": {
        "level": "exploration",
        "gates_of": ["C01"],
        "assumptions": TRUST + ["scheduling is perturbed through drawn answer delays at the fakes and GOMAXPROCS, not enumerated", "fresh gateways give fresh Go maps (iteration order is randomised per map by the runtime)"],
        "quick": {"tests": [("TestC13", 1200)], "shards": 4, "timeout": 600},
        "thorough": {"tests": [("TestC13", 4000)], "shards": 16, "timeout": 3000, "race": True},
    },
    "C12": {
        "level": "exploration",
        "gates_of": ["C01"],
        "assumptions": TRUST + ["max batch size is set above any level size so that one Queryer.Query invocation equals one HTTP call at the fake transport", "plan levels are taken from the real SequentialPlanner on the same context"],
        "quick": {"tests": [("TestC12", 700)], "shards": 4, "timeout": 600},
        "thorough": {"tests": [("TestC12", 8000)], "shards": 16, "timeout": 3000},
    },
    "C06": {
        "level": "exploration",
        "gates_of": ["C01"],
        "assumptions": TRUST + ["requests are attributed to a client request by resetting the fakes' logs between sequential client requests", "faults are transport-level failures of one recorded downstream call"],
        "quick": {"tests": [("TestC06", 2500)], "shards": 4, "timeout": 600},
        "thorough": {"tests": [("TestC06", 30000)], "shards": 16, "timeout": 2400},
    },
    "C10": {
        "level": "exploration",
        "gates_of": ["C01"],
        "assumptions": TRUST + ["invalidity of the edited operation is established with gqlparser on the harness's own union schema",
                                "only errors of ONE sub-request per operation are injected (the code forwards the first erroring response of a batch; the statement does not clearly demand more)"],
        "quick": {"tests": [("TestC10", 2500)], "shards": 4, "timeout": 600},
        "thorough": {"tests": [("TestC10", 30000)], "shards": 16, "timeout": 2400},
    },
    "C09": {
        "level": "fault_enumeration",
        "gates_of": ["C01"],
        "assumptions": TRUST + ["faults are injected at the fake transport, identified by (service, query text, occurrence), so they are independent of goroutine scheduling",
                                "failure signals are: transport error, non-2xx, non-JSON, non-array, wrong array length, errors, missing data, missing or mistyped node; node:null and data:null are not (a service may legitimately say 'not found')",
                                "cases showing the syntactic feature of an open known finding are excluded and counted"],
        "quick": {"tests": [("TestC09", 400)], "shards": 4, "timeout": 900},
        "thorough": {"tests": [("TestC09", 5000)], "shards": 16, "timeout": 3000},
    },
    "C11": {
        "level": "exploration",
        "assumptions": TRUST + ["completion order of the concurrent HTTP calls is controlled at the transport (calls are parked and released by drawn priorities); the reducer's own interleaving is reached only through it"],
        "quick": {"tests": [("TestC11Grid", 0), ("TestC11", 400)], "shards": 4, "timeout": 600},
        "thorough": {"tests": [("TestC11Grid", 0), ("TestC11", 6000)], "shards": 16, "timeout": 2400, "race": True},
    },
    "C07": {
        "level": "exploration",
        "assumptions": TRUST + ["'cannot be decoded' is judged by an independent reading of the documented request shape; bodies whose classification the statement leaves open (empty query, odd-case or duplicate keys, multipart without files) accept 200 or 422",
                                "only POST is in the domain"],
        "quick": {"tests": [("TestC07", 4000)], "shards": 4, "timeout": 600},
        "thorough": {"tests": [("TestC07", 60000)], "shards": 16, "timeout": 2400, "fuzz": [("FuzzHandlerBytes", 120), ("FuzzHandlerMultipart", 90)]},
    },
    "C05": {
        "level": "exploration",
        "assumptions": TRUST + ["conflict edits use fresh type names so that every service SDL stays individually valid", "routes of shared non-Node types are last-writer by design and not compared"],
        "quick": {"tests": [("TestC05", 2500)], "shards": 4, "timeout": 600},
        "thorough": {"tests": [("TestC05", 12000)], "shards": 16, "timeout": 2400},
    },
    "C02": {
        "level": "exploration",
        "assumptions": TRUST + ["coverage of client-selected fields is checked dynamically over a saturated store (every plan step fires), by (concrete type, field, coerced arguments)",
                                "cases showing the syntactic feature of an open known finding are excluded and counted (coverage.excluded_by_gate)"],
        "quick": {"tests": [("TestC02", 3000)], "shards": 4, "timeout": 600},
        "thorough": {"tests": [("TestC02", 30000)], "shards": 16, "timeout": 2400},
    },
    "C01": {
        "level": "exploration",
        "assumptions": TRUST + ["data conforms to the schemas (no execution errors by construction)", "field order inside objects is not compared",
                                "cases showing the syntactic feature of an open known finding are excluded and counted (coverage.excluded_by_gate)"],
        "quick": {"tests": [("TestC01", 4000)], "shards": 4, "timeout": 600},
        "thorough": {"tests": [("TestC01", 30000)], "shards": 16, "timeout": 2400},
    },
    "C03": {
        "level": "exploration",
        "assumptions": TRUST + ["descriptions are not compared (the statement does not list them)", "worlds are mergeable by construction of the generator"],
        "quick": {"tests": [("TestC03", 2500)], "shards": 4, "timeout": 600},
        "thorough": {"tests": [("TestC03", 40000)], "shards": 16, "timeout": 1800},
    },
    "C04": {
        "level": "exploration",
        "assumptions": TRUST + ["the routed-services clause is checked as: routed => declares a routable field, and sole owner of a field => routed (services whose only fields are shadowed copies of shared value types are not required to be routed)"],
        "quick": {"tests": [("TestC04", 2500)], "shards": 4, "timeout": 600},
        "thorough": {"tests": [("TestC04", 40000)], "shards": 16, "timeout": 1800},
    },
    "C20": {
        "level": "exploration",
        "assumptions": TRUST + ["interleavings are controlled at the callbacks and at the 9 verif hook points in AsyncMapReduce; orders between two hook points are sampled by the Go scheduler"],
        "quick": {"tests": [("TestC20Grid", 0), ("TestC20", 4000)], "shards": 4, "timeout": 600},
        "thorough": {"tests": [("TestC20Grid", 0), ("TestC20", 40000)], "shards": 16, "timeout": 1500, "race": True},
    },
}
