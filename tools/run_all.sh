#!/bin/bash
# runs every registered quick (or $1=thorough) check on the current tree and validates manifest + evidence
cd /verif
tier=${1:-quick}
ids=$(python3 -c "import json; print(' '.join(c['property_id'] for c in json.load(open('MANIFEST.json'))['checks']))")
rc=0
for id in $ids; do
  out=$(./check $id --tier $tier 2>&1); code=$?
  echo "$id exit=$code $(echo "$out" | grep -c KNOWN-FINDING) known; $(echo "$out" | tail -1)"
  if [ $code -ne 0 ]; then rc=1; echo "$out" | tail -15; fi
done
python3-vt - <<'PY'
import json,jsonschema,glob
jsonschema.validate(json.load(open('MANIFEST.json')), json.load(open('/root/.vp/MANIFEST.schema.json')))
sch=json.load(open('/root/.vp/EVIDENCE.schema.json'))
m=json.load(open('MANIFEST.json'))
for c in m['checks']:
    p=c['evidence_file']
    try:
        d=json.load(open(p)); jsonschema.validate(d, sch)
        assert d['violations']==0, 'violations in evidence'
        assert d['level']==c['level_claimed']['category'], 'level mismatch'
    except Exception as e: print(p,'INVALID',str(e)[:200])
print('manifest+evidence validated')
PY
git -C /repo status --short
exit $rc
