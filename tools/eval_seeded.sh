#!/bin/bash
# recorded evaluation of every archived seeded change (seeded/*/patch.diff): applies it to /repo, runs the quick tier of the first check
# named in meta.json's detected_by (or the checks given as further arguments), reverts /repo. usage: eval_seeded.sh [dir-glob-substring]
cd /verif
for d in seeded/*${1}*/; do
  d=${d%/}
  [ -f $d/patch.diff ] || continue
  ids=$(python3 - $d <<'PY'
import json,re,sys
m=json.load(open(sys.argv[1]+'/meta.json'))
db=m.get('detected_by'); db=' '.join(db) if isinstance(db,list) else str(db)
ids=re.findall(r'C\d\d',db) or [m['property']]
print(ids[0])
PY
)
  echo "=== $d -> $ids"
  tools/run_seed.sh /verif/$d/patch.diff $ids 2>&1 | grep -E "^CHECK|cannot apply|not clean" | cut -c1-260
done
