package props

import (
	"sort"
	"strings"
	"testing"

	"github.com/vektah/gqlparser/v2/ast"
	"pgregory.net/rapid"

	"verif/harness/ev"
)

func isNodeEntry(fd *ast.FieldDefinition) bool {
	return len(fd.Arguments) == 1 && fd.Arguments[0].Name == "id" && fd.Arguments[0].Type.String() == "ID!" && fd.Type.String() == "Node"
}

func isRootName(n string) bool { return n == "Query" || n == "Mutation" || n == "Subscription" }

func checkC04(c *MergeCase) *ev.Failure {
	if c.Warmup != "" {
		runMerge(c.World, c.Order, c.Warmup)
	}
	res, err, pan := runMerge(c.World, c.Order, c.Merger)
	if pan != "" {
		return ev.Failf("panic", "Merge panicked: %s", pan)
	}
	if err != nil {
		return ev.Failf("rejected", "Merge rejected a mergeable world: %v", err)
	}
	schemas, lerr := c.World.ServiceSchemas()
	if lerr != nil {
		return ev.Failf("harness", "%v", lerr)
	}
	// declarers[type.field] = set of service URLs declaring it on an object type
	declarers := map[string]map[string]bool{}
	exclusive := map[string]bool{} // services that are the only declarer of some routable field
	hasRoutable := map[string]bool{}
	for i, s := range schemas {
		url := c.World.Services[i].URL
		for name, d := range s.Types {
			if d.Kind != ast.Object || strings.HasPrefix(name, "__") {
				continue
			}
			for _, fd := range d.Fields {
				if strings.HasPrefix(fd.Name, "__") || fd.Name == "id" || isNodeEntry(fd) {
					continue
				}
				k := name + "." + fd.Name
				if declarers[k] == nil {
					declarers[k] = map[string]bool{}
				}
				declarers[k][url] = true
				hasRoutable[url] = true
			}
		}
	}
	for _, ds := range declarers {
		if len(ds) == 1 {
			for u := range ds {
				exclusive[u] = true
			}
		}
	}
	tm := res.TypeURLMap
	names := make([]string, 0, len(res.Schema.Types))
	for n := range res.Schema.Types {
		names = append(names, n)
	}
	sort.Strings(names)
	for _, name := range names {
		d := res.Schema.Types[name]
		if d.Kind != ast.Object || strings.HasPrefix(name, "__") {
			continue
		}
		implementsNode := false
		for _, in := range d.Interfaces {
			if in == "Node" {
				implementsNode = true
			}
		}
		routable := 0
		for _, fd := range d.Fields {
			if strings.HasPrefix(fd.Name, "__") || fd.Name == "id" || isNodeEntry(fd) {
				continue
			}
			routable++
			url, ok := tm.Get(name, fd.Name)
			if !ok {
				return ev.Failf("route:missing", "%s.%s has no route", name, fd.Name)
			}
			ds := declarers[name+"."+fd.Name]
			if !ds[url] {
				return ev.Failf("route:not-declarer", "%s.%s is routed to %s which does not declare it (declarers %v)", name, fd.Name, url, keys(ds))
			}
			if isRootName(name) && len(ds) != 1 {
				return ev.Failf("route:root-wrong", "root field %s.%s declared by %d services", name, fd.Name, len(ds))
			}
		}
		flag, known := tm.GetTypeIsImplementsNode(name)
		if implementsNode && !(known && flag) {
			return ev.Failf("node-flag", "%s implements Node but is not marked stitchable (known=%v flag=%v)", name, known, flag)
		}
		if !implementsNode && flag {
			return ev.Failf("node-flag", "%s does not implement Node but is marked stitchable", name)
		}
		if !known && routable > 0 {
			return ev.Failf("route:missing", "type %s with %d routable fields is unknown to the routing table", name, routable)
		}
	}
	// no route for things that are not in the merged schema
	for tn, props := range tm {
		d := res.Schema.Types[tn]
		if d == nil {
			return ev.Failf("route:invented", "routing table has type %s which the merged schema lacks", tn)
		}
		for fn := range props.Fields {
			if d.Fields.ForName(fn) == nil {
				if c.Merger == "sanitize" && tn == "Query" && fn == "node" {
					continue
				}
				return ev.Failf("route:invented", "routing table has %s.%s which the merged schema lacks", tn, fn)
			}
		}
	}
	routed := map[string]bool{}
	for _, u := range tm.GetURLs() {
		routed[u] = true
	}
	for u := range routed {
		if !hasRoutable[u] {
			return ev.Failf("urls-set", "routed service %s declares no routable field", u)
		}
	}
	for u := range exclusive {
		if !routed[u] {
			return ev.Failf("urls-set", "service %s is the only owner of a field but is not among the routed services", u)
		}
	}
	return nil
}

func keys(m map[string]bool) []string {
	r := []string{}
	for k := range m {
		r = append(r, k)
	}
	sort.Strings(r)
	return r
}

func TestC04(t *testing.T) {
	rec := ev.Get("C04")
	rec.Rule = "mergeable worlds as in C03 x service order x merger; oracle over MergeResult.TypeURLMap against the declarers computed from the service SDLs; non-trivial = >=2 services and (shared value type or interface or union); distinct by hash(service SDLs, order, merger)"
	rapid.Check(t, func(t *rapid.T) {
		c, m := genMergeCase(t, false)
		labels, _ := mergeLabels(m)
		nt := false
		for _, l := range labels {
			if l == "sharedValueType" || l == "interface" || l == "union" {
				nt = true
			}
		}
		nt = nt && m.NServices >= 2
		rec.Case(ev.Hash(c.World.Services, c.Order, c.Merger), nt, labels...)
		rec.Sample(nt, func() interface{} { return c })
		if f := checkC04(c); f != nil {
			ev.WriteFail("C04", c, f)
			t.Fatalf("%v", f)
		}
	})
}

func init() {
	replayers["C04"] = func(path string) (*ev.Failure, error) {
		var c MergeCase
		if _, _, err := ev.LoadCase(path, &c); err != nil {
			return nil, err
		}
		return checkC04(&c), nil
	}
}
