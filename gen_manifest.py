#!/usr/bin/env python3
"""Regenerates MANIFEST.json from manifest_src.py (keeps the manifest valid and in one place)."""
import json, os, subprocess
from manifest_src import CHECKS, NOT_APPLICABLE, NOTES
here = os.path.dirname(os.path.abspath(__file__))
hook_commits = subprocess.run(["git", "-C", "/repo", "log", "--format=%H %s"], stdout=subprocess.PIPE, text=True).stdout.splitlines()
hook_commits = [l.split()[0] for l in hook_commits if "verif hooks" in l]
m = {
    "version": 1,
    "setup_cmd": "cd /verif/harness && GOFLAGS=-mod=mod GOPROXY=off GOSUMDB=off GOTOOLCHAIN=local go test -c -vet=off -tags verif -o /dev/null ./props",
    "hooks": {
        "guard": "verif",
        "enable": "go test -tags verif (the harness module /verif/harness replaces github.com/buildbuildio/pebbles with /repo, so every check rebuilds /repo's working tree with the tag on)",
        "baseline_off_cmd": "cd /repo && GOFLAGS=-mod=mod GOPROXY=off GOSUMDB=off go test -vet=off -count=1 -timeout 25m ./...",
        "source_commits": hook_commits,
        "add_only": True,
    },
    "engines": [{"name": "vcheck", "path": "/verif/check", "serves_properties": [c["property_id"] for c in CHECKS],
                 "kind_free_text": "python driver sharding rapid (pgregory.net/rapid v1.3.0) property tests and native go fuzz targets of /verif/harness/props over 16 cores; replays known/regression case files first"}],
    "checks": [],
    "not_applicable": NOT_APPLICABLE,
    "notes": NOTES,
}
for c in CHECKS:
    pid = c["property_id"]
    m["checks"].append({
        "property_id": pid,
        "quick_cmd": "./check %s --tier quick" % pid,
        "thorough_cmd": "./check %s --tier thorough" % pid,
        "evidence_file": "/verif/evidence/%s.json" % pid,
        "replay_cmd_template": "./check %s --replay {path}" % pid,
        "engine": "vcheck",
        "level_claimed": {"category": c["category"], "text": c["text"], "design_ref": c["design_ref"]},
        "level_note": c["level_note"],
        "technique": c["technique"],
    })
with open(os.path.join(here, "MANIFEST.json"), "w") as f:
    json.dump(m, f, indent=1)
    f.write("\n")
print("wrote MANIFEST.json with", len(m["checks"]), "checks;", len(NOT_APPLICABLE), "not applicable")
