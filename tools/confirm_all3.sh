#!/bin/bash
# confirms every delivered round-3 seed under /tmp/wt3/*.out/{a,b} that has not been confirmed yet; results in /verif/.scratch/seed3/confirm.log
mkdir -p /verif/.scratch/seed3
for d in /tmp/wt3/C*.out/a /tmp/wt3/C*.out/b; do
  [ -f $d/patch.diff ] && [ -f $d/demo_cmd.txt ] && [ -f $d/demo_path.txt ] && [ -f $d/seed_demo_test.go.txt ] || continue
  grep -q "CONFIRMED $d\$" /verif/.scratch/seed3/confirm.log 2>/dev/null && continue
  /verif/tools/confirm_seed3.sh $d >> /verif/.scratch/seed3/confirm.log 2>&1
done
grep -c "^CONFIRMED" /verif/.scratch/seed3/confirm.log; grep "^NOT-CONFIRMED" /verif/.scratch/seed3/confirm.log
