#!/usr/bin/env python3
import json,sys,glob
for p in (sys.argv[1:] or glob.glob('/dev/shm/vdev/fail-*.json')):
    d=json.load(open(p))
    print('SIG',d.get('signature')); print('MSG',d.get('message','')[:1500])
    c=d['case']
    if 'world' in c:
        for s in c['world']['services']: print('---',s['url']); print(s['sdl'])
        if c['world'].get('store'): print('STORE',json.dumps(c['world']['store']))
    for k in c:
        if k!='world': print(k.upper(),json.dumps(c[k]))
