#!/bin/bash
# triage of every delivered round-3 seed with the check of its own property (plus extra ids given as arguments); log in .scratch/seed3/triage.log
mkdir -p /verif/.scratch/seed3
for d in /tmp/wt3/C*.out/a /tmp/wt3/C*.out/b; do
  [ -f $d/patch.diff ] || continue
  id=$(echo $d | sed 's#/tmp/wt3/\(C[0-9]*\).out/.*#\1#')
  echo "=== $d"
  /verif/tools/triage_seed.sh $d/patch.diff $id "$@" 2>&1 | grep -v "^built"
done
