package props

import (
	"bytes"
	"encoding/base64"
	"encoding/json"
	"fmt"
	"os"
	"sort"
	"strconv"
	"strings"
	"sync"
	"testing"
	"time"

	"github.com/vektah/gqlparser/v2"
	"pgregory.net/rapid"

	"verif/harness/ev"
	"verif/harness/fake"
	"verif/harness/gwx"
	"verif/harness/refexec"
	"verif/harness/world"
)

// UploadFile: one file part and the variable paths it is attached to (paths carry the batch index in batch mode).
type UploadFile struct {
	Name    string   `json:"name"`
	DataB64 string   `json:"data_b64"`
	Paths   []string `json:"paths"`
	// ContentType the client declares for the part (empty: application/octet-stream)
	ContentType string `json:"content_type,omitempty"`
	// Size/Seed describe the content of a large file instead of DataB64 (a pattern, not stored in the case file)
	Size int `json:"size,omitempty"`
	Seed int `json:"seed,omitempty"`
}

// fileData returns the content of an upload: the stored bytes, or the pattern of a large file.
func fileData(f UploadFile) []byte {
	if f.Size > 0 && f.DataB64 == "" {
		data := make([]byte, f.Size)
		for j := range data {
			data[j] = byte((j*131 + j/4099 + f.Seed) % 253)
		}
		return data
	}
	data, _ := base64.StdEncoding.DecodeString(f.DataB64)
	return data
}

type UploadCase struct {
	World *world.World     `json:"world"`
	Batch bool             `json:"batch"`
	Ops   []gwx.GQLRequest `json:"ops"`
	Files []UploadFile     `json:"files"`
	// SlowPlainUS: every downstream call without files is answered after this delay (a slow service), so that an
	// operation whose file is read by a child step reads it after the other operations of the batch are done
	SlowPlainUS int `json:"slow_plain_us,omitempty"`
	// Fault: the first downstream call that carries files is answered with status 504 ("status504") or with its
	// normal data plus an error ("errors-with-data"); then the claims are those of C06/C09/C10 for the upload path:
	// nothing is delivered twice, the failure reaches the client
	Fault string `json:"fault,omitempty"`
}

func uploadWorld() *world.World {
	node := "interface Node {\n  id: ID!\n}\n"
	input := "input FileInput {\n  file: Upload\n  files: [Upload]\n  name: String\n  nested: NestedInput\n}\ninput NestedInput {\n  doc: Upload\n  label: String\n}\nscalar Upload\n"
	s0 := node + input + "type Human implements Node {\n  id: ID!\n  name: String!\n}\n" +
		"type Query {\n  node(id: ID!): Node\n  getHumans: [Human!]!\n}\n" +
		"type Mutation {\n  upload(file: Upload, name: String): Human!\n  uploadMany(files: [Upload]!): String\n  uploadIn(input: FileInput!): String\n  plain(name: String): String\n}\n"
	s1 := node + input + "type Human implements Node {\n  id: ID!\n  phone: String!\n  verify(doc: Upload, note: String): String\n}\n" +
		"type Query {\n  node(id: ID!): Node\n}\n" +
		"type Mutation {\n  attach(file: Upload!, note: String): Human\n  attachIn(input: FileInput): String\n  other(name: String): String\n}\n"
	u := node + input + "type Human implements Node {\n  id: ID!\n  name: String!\n  phone: String!\n  verify(doc: Upload, note: String): String\n}\n" +
		"type Query {\n  node(id: ID!): Node\n  getHumans: [Human!]!\n}\n" +
		"type Mutation {\n  upload(file: Upload, name: String): Human!\n  uploadMany(files: [Upload]!): String\n  uploadIn(input: FileInput!): String\n  plain(name: String): String\n" +
		"  attach(file: Upload!, note: String): Human\n  attachIn(input: FileInput): String\n  other(name: String): String\n}\n"
	return &world.World{
		Services: []world.Service{{URL: "http://svc-0.test/graphql", SDL: s0}, {URL: "http://svc-1.test/graphql", SDL: s1}},
		UnionSDL: u,
		Store: &world.Store{
			Entities: map[string]*world.Entity{"Human_1": {Type: "Human", Fields: map[string]interface{}{"name": "ann", "phone": "111", "verify": "ver"}}},
			Roots: map[string]interface{}{"Query.getHumans": []interface{}{"Human_1"}, "Mutation.upload": "Human_1", "Mutation.uploadMany": "many", "Mutation.uploadIn": "in",
				"Mutation.plain": "plain", "Mutation.attach": "Human_1", "Mutation.attachIn": "attin", "Mutation.other": "other"},
		},
	}
}

func stripBatchIndex(path string, batch bool) (int, string, bool) {
	if !batch {
		return 0, path, true
	}
	i := strings.Index(path, ".")
	if i < 0 {
		return 0, "", false
	}
	n, err := strconv.Atoi(path[:i])
	if err != nil {
		return 0, "", false
	}
	return n, path[i+1:], true
}

func cloneVars(v map[string]interface{}) map[string]interface{} {
	if v == nil {
		return nil
	}
	m, _ := refexec.Normalize(v).(map[string]interface{})
	return m
}

func setVarPath(vars map[string]interface{}, path string, val interface{}) bool {
	parts := strings.Split(strings.TrimPrefix(path, "variables."), ".")
	var cur interface{} = vars
	for i, p := range parts {
		last := i == len(parts)-1
		switch c := cur.(type) {
		case map[string]interface{}:
			if last {
				if _, ok := c[p]; !ok {
					return false
				}
				c[p] = val
				return true
			}
			cur = c[p]
		case []interface{}:
			n, err := strconv.Atoi(p)
			if err != nil || n < 0 || n >= len(c) {
				return false
			}
			if last {
				c[n] = val
				return true
			}
			cur = c[n]
		default:
			return false
		}
	}
	return false
}

func checkC19(c *UploadCase) (*ev.Failure, string) {
	net, err := fake.NewNet(c.World)
	if err != nil {
		return ev.Failf("harness", "%v", err), ""
	}
	gw, err := gwx.Build(c.World, net, gwx.Config{})
	if err != nil {
		return ev.Failf("harness", "%v", err), ""
	}
	if c.SlowPlainUS > 0 {
		net.Fault = func(callIdx int, url string, reqs []*fake.Received, normal []map[string]interface{}) *fake.FaultResponse {
			if len(reqs) > 0 && !reqs[0].Multipart {
				time.Sleep(time.Duration(c.SlowPlainUS) * time.Microsecond)
			}
			return nil
		}
	}
	if c.Fault != "" {
		var fmu sync.Mutex
		faulted := false
		net.Fault = func(callIdx int, url string, reqs []*fake.Received, normal []map[string]interface{}) *fake.FaultResponse {
			fmu.Lock()
			defer fmu.Unlock()
			if faulted || len(reqs) == 0 || !reqs[0].Multipart {
				return nil
			}
			faulted = true
			if c.Fault == "status504" {
				return &fake.FaultResponse{Status: 504, Body: []byte("gateway timeout")}
			}
			if c.Fault == "redirect308" {
				// the service moved: the client stack re-sends the request, body included, to the new location
				return &fake.FaultResponse{Status: 308, Body: []byte("moved"), Location: url}
			}
			el := map[string]interface{}{"data": normal[0]["data"], "errors": []interface{}{map[string]interface{}{"message": "upload refused by the scanner"}}}
			b, _ := json.Marshal(el)
			return &fake.FaultResponse{Body: b}
		}
	}
	var opsJSON []byte
	if c.Batch {
		opsJSON, _ = json.Marshal(c.Ops)
	} else {
		opsJSON, _ = json.Marshal(c.Ops[0])
	}
	fm := map[string][]string{}
	var files []mpFile
	for i, f := range c.Files {
		key := strconv.Itoa(i)
		fm[key] = f.Paths
		files = append(files, mpFile{Key: key, Name: f.Name, Data: fileData(f), ContentType: f.ContentType})
	}
	mapJSON, _ := json.Marshal(fm)
	body, ct := buildMultipart([][2]string{{"operations", string(opsJSON)}, {"map", string(mapJSON)}}, files)
	limit := 120 * time.Second
	for _, f := range c.Files {
		if f.Size > 16<<20 {
			// several operations copying a file of 33-40 MiB, 16 such cases at a time under the race detector: minutes, not
			// seconds, on a busy machine (a request that hangs still never returns)
			limit = 900 * time.Second
		}
	}
	resp := gwx.Post(gw, body, ct, limit)
	if resp.TimedOut {
		return ev.Failf("hang", "no response"), ""
	}
	if resp.Panic != "" {
		return ev.Failf("panic:"+gwx.PanicSite(resp.Panic), "%s", trunc(resp.Panic, 800)), ""
	}
	if resp.Status != 200 {
		return ev.Failf("status", "a well-formed multipart request is answered with status %d: %s", resp.Status, trunc(string(resp.Body), 300)), ""
	}
	var results []*gwx.GQLResponse
	if c.Batch {
		var raw []json.RawMessage
		if err := json.Unmarshal(resp.Body, &raw); err != nil || len(raw) != len(c.Ops) {
			return ev.Failf("envelope", "batch response malformed: %s", trunc(string(resp.Body), 300)), ""
		}
		for _, r := range raw {
			d, derr := gwx.Decode(r)
			if derr != nil {
				return ev.Failf("envelope", "%v", derr), ""
			}
			results = append(results, d)
		}
	} else {
		d, derr := gwx.Decode(resp.Body)
		if derr != nil {
			return ev.Failf("envelope", "%v", derr), ""
		}
		results = []*gwx.GQLResponse{d}
	}
	if c.Fault != "" && c.Fault != "redirect308" {
		seen := map[string]int{}
		for _, r := range net.Snapshot() {
			if strings.HasPrefix(strings.TrimSpace(r.Query), "mutation") {
				k := r.Service + "\x00" + r.Query
				seen[k]++
				if seen[k] > 1 {
					return ev.Failf("delivered-twice", "with the file-carrying call answered by %s, service %s received the same mutation sub-request %d times:\n%s", c.Fault, r.Service, seen[k], trunc(r.Query, 200)), ""
				}
			}
		}
		any := false
		for _, res := range results {
			for _, e := range res.Errors {
				if c.Fault == "status504" || strings.Contains(fmt.Sprint(e["message"]), "upload refused by the scanner") {
					any = true
				}
			}
		}
		if !any {
			return ev.Failf("masked:"+c.Fault, "the file-carrying call was answered by %s but no operation of the request reports it: %s", c.Fault, trunc(string(resp.Body), 400)), ""
		}
		return nil, "fault:" + c.Fault
	}
	// reference: the same operations with every file slot holding the marker the fakes use
	union, _ := c.World.UnionSchema()
	ref := &refexec.Executor{Schema: union, Store: c.World.Store}
	expVars := make([]map[string]interface{}, len(c.Ops))
	for i, op := range c.Ops {
		expVars[i] = cloneVars(op.Variables)
	}
	type slot struct {
		op   int
		path string
		file int
	}
	var slots []slot
	for fi, f := range c.Files {
		for _, p := range f.Paths {
			oi, rest, ok := stripBatchIndex(p, c.Batch)
			if !ok || oi >= len(c.Ops) {
				return ev.Failf("harness", "bad generated path %q", p), ""
			}
			if !setVarPath(expVars[oi], rest, "upload:"+f.Name) {
				return ev.Failf("harness", "generated path %q does not resolve", p), ""
			}
			slots = append(slots, slot{oi, rest, fi})
		}
	}
	for i, op := range c.Ops {
		doc, verrs := ref.Parse(op.Query)
		if verrs != nil {
			return ev.Failf("harness", "generated operation invalid: %v", verrs), ""
		}
		rr := ref.Execute(doc, op.OperationName, expVars[i])
		if len(rr.Errors) > 0 {
			return ev.Failf("harness", "reference errors: %v", rr.Errors), ""
		}
		if len(results[i].Errors) > 0 {
			return ev.Failf("response:errors", "operation %d of a well-formed upload request answered with errors: %s", i, trunc(jsonOf(results[i].Errors), 500)), ""
		}
		exp := refexec.Prune(refexec.Normalize(rr.Data))
		got := refexec.Prune(refexec.Normalize(map[string]interface{}(results[i].Data)))
		if cls, msg := refexec.Diff(exp, got, "data"); cls != "" {
			return ev.Failf("response:"+cls, "operation %d: %s", i, msg), ""
		}
	}
	// what the services received
	log := net.Snapshot()
	delivered := map[string]bool{}
	for _, r := range log {
		// attribute the request to a client operation by operation name (root steps carry it)
		oi := -1
		if r.OperationName != nil {
			for i, op := range c.Ops {
				if op.OperationName != nil && *op.OperationName == *r.OperationName {
					oi = i
				}
			}
		}
		doc, errs := gqlparser.LoadQuery(net.Services[r.Service].Schema, r.Query)
		if errs != nil {
			return ev.Failf("subrequest-invalid", "%v", errs), ""
		}
		declared := map[string]bool{}
		for _, o := range doc.Operations {
			for _, vd := range o.VariableDefinitions {
				declared[vd.Variable] = true
				// child steps carry no operation name: the client's variables are named per operation (v<op>_<n>)
				var a, b int
				if n, _ := fmt.Sscanf(vd.Variable, "v%d_%d", &a, &b); n == 2 && oi < 0 && a < len(c.Ops) {
					oi = a
				}
			}
		}
		expected := map[string]int{}
		if oi >= 0 {
			for _, s := range slots {
				if s.op != oi {
					continue
				}
				v := strings.SplitN(strings.TrimPrefix(s.path, "variables."), ".", 2)[0]
				if declared[v] {
					expected[s.path] = s.file
				}
			}
		}
		if len(expected) == 0 {
			if r.Multipart || len(r.Files) > 0 {
				return ev.Failf("file-leaked-to:"+r.Service, "service %s uses no upload variable in %q but received %d file(s)", r.Service, trunc(r.Query, 120), len(r.Files)), ""
			}
			continue
		}
		if !r.Multipart {
			return ev.Failf("file-missing", "service %s uses upload variables %v but received a plain JSON request", r.Service, keysOfInt(expected)), ""
		}
		for p, fi := range expected {
			part, ok := r.Files[p]
			if !ok {
				return ev.Failf("file-missing", "service %s: no file at path %s (paths received: %v)", r.Service, p, keysOfParts(r.Files)), ""
			}
			want := fileData(c.Files[fi])
			if part.Name != c.Files[fi].Name {
				return ev.Failf("name-differs", "service %s path %s: file name %q, client sent %q", r.Service, p, part.Name, c.Files[fi].Name), ""
			}
			if !bytes.Equal(part.Data, want) {
				return ev.Failf("bytes-differ", "service %s path %s: %d bytes received, client sent %d bytes", r.Service, p, len(part.Data), len(want)), ""
			}
			delivered[fmt.Sprintf("%d/%s", oi, p)] = true
		}
		for p := range r.Files {
			if _, ok := expected[p]; !ok {
				return ev.Failf("wrong-path", "service %s received a file at path %s which the client did not name for it", r.Service, p), ""
			}
		}
	}
	for _, s := range slots {
		if !delivered[fmt.Sprintf("%d/%s", s.op, s.path)] {
			return ev.Failf("file-missing", "the file for operation %d path %s reached no service", s.op, s.path), ""
		}
	}
	return nil, ""
}

func keysOfInt(m map[string]int) []string {
	var r []string
	for k := range m {
		r = append(r, k)
	}
	sort.Strings(r)
	return r
}

func keysOfParts(m map[string]fake.FilePart) []string {
	var r []string
	for k := range m {
		r = append(r, k)
	}
	sort.Strings(r)
	return r
}

type upVar struct {
	name, typ string
	value     interface{}
	slots     []string // paths relative to "variables."
}

func genUploadCase(t *rapid.T) (*UploadCase, []string) {
	c := &UploadCase{World: uploadWorld(), Batch: rapid.IntRange(0, 2).Draw(t, "batch") == 0}
	nops := 1
	if c.Batch {
		nops = rapid.IntRange(1, 3).Draw(t, "nops")
	}
	labels := map[string]bool{}
	type fileSlot struct{ path string }
	var allSlots []string
	for oi := 0; oi < nops; oi++ {
		var vars []*upVar
		newVar := func(typ string) *upVar {
			v := &upVar{name: fmt.Sprintf("v%d_%d", oi, len(vars)), typ: typ}
			switch typ {
			case "Upload", "Upload!":
				v.value = nil
				v.slots = []string{v.name}
			case "[Upload]!":
				n := rapid.IntRange(1, 3).Draw(t, "listlen")
				l := make([]interface{}, n)
				for i := 0; i < n; i++ {
					if rapid.IntRange(0, 3).Draw(t, "listslot") > 0 {
						v.slots = append(v.slots, fmt.Sprintf("%s.%d", v.name, i))
					}
				}
				v.value = l
				labels["listPosition"] = true
			case "FileInput", "FileInput!":
				m := map[string]interface{}{"name": "n"}
				if rapid.IntRange(0, 1).Draw(t, "infile") == 0 {
					m["file"] = nil
					v.slots = append(v.slots, v.name+".file")
					labels["nestedObjectPosition"] = true
				}
				if rapid.IntRange(0, 2).Draw(t, "infiles") == 0 {
					n := rapid.IntRange(1, 2).Draw(t, "inlistlen")
					m["files"] = make([]interface{}, n)
					for i := 0; i < n; i++ {
						v.slots = append(v.slots, fmt.Sprintf("%s.files.%d", v.name, i))
					}
					labels["listInsideObject"] = true
				}
				if rapid.IntRange(0, 2).Draw(t, "innested") == 0 {
					m["nested"] = map[string]interface{}{"doc": nil, "label": "l"}
					v.slots = append(v.slots, v.name+".nested.doc")
					labels["deepNestedPosition"] = true
				}
				v.value = m
			case "String":
				v.value = "s"
			}
			vars = append(vars, v)
			return v
		}
		pickVar := func(typ string) *upVar {
			// reuse a variable of the same type sometimes: one variable used by two fields / two services
			for _, v := range vars {
				// a non-null variable may be used at a nullable position of the same type
				if (v.typ == typ || v.typ == typ+"!") && rapid.IntRange(0, 2).Draw(t, "reuse") == 0 {
					labels["variableUsedTwice"] = true
					return v
				}
			}
			return newVar(typ)
		}
		// what is selected on a returned Human: fields of both services, sometimes one of the second service that takes
		// a file itself (a child step carrying an upload, next to child steps that carry none)
		humanSel := func() string {
			switch rapid.IntRange(0, 3).Draw(t, "humansel") {
			case 0:
				labels["uploadInChildStep"] = true
				return fmt.Sprintf("{ id name verify(doc: $%s, note: \"n\") }", pickVar("Upload").name)
			case 1:
				labels["uploadInChildStep"] = true
				return fmt.Sprintf("{ id phone verify(doc: $%s) }", pickVar("Upload").name)
			case 2:
				return "{ id phone }"
			}
			return "{ id name phone }"
		}
		nfields := rapid.IntRange(1, 3).Draw(t, "nfields")
		var sels []string
		usedSvc := map[int]bool{}
		for fi := 0; fi < nfields; fi++ {
			alias := fmt.Sprintf("f%d", fi)
			switch rapid.IntRange(0, 8).Draw(t, "field") {
			case 0, 7, 8:
				v := pickVar("Upload")
				sels = append(sels, fmt.Sprintf("%s: upload(file: $%s, name: \"x\") %s", alias, v.name, humanSel()))
				usedSvc[0] = true
			case 1:
				if rapid.IntRange(0, 2).Draw(t, "listliteral") == 0 {
					a, b := pickVar("Upload"), pickVar("Upload")
					sels = append(sels, fmt.Sprintf("%s: uploadMany(files: [$%s, $%s])", alias, a.name, b.name))
					usedSvc[0] = true
					labels["variablesInsideLiteral"] = true
					break
				}
				v := pickVar("[Upload]!")
				sels = append(sels, fmt.Sprintf("%s: uploadMany(files: $%s)", alias, v.name))
				usedSvc[0] = true
			case 2:
				if rapid.IntRange(0, 2).Draw(t, "inliteral") == 0 {
					// the input object written as a literal, the files are variables inside it (one or two levels deep)
					field, svc := "uploadIn", 0
					if rapid.Bool().Draw(t, "inliteralsvc") {
						field, svc = "attachIn", 1
					}
					var parts []string
					if rapid.Bool().Draw(t, "litfile") {
						parts = append(parts, "file: $"+pickVar("Upload").name)
					}
					if rapid.Bool().Draw(t, "litfiles") {
						a, b := pickVar("Upload"), pickVar("Upload")
						parts = append(parts, fmt.Sprintf("files: [$%s, $%s]", a.name, b.name))
					}
					if len(parts) == 0 || rapid.Bool().Draw(t, "litnested") {
						parts = append(parts, fmt.Sprintf("nested: {doc: $%s, label: \"l\"}", pickVar("Upload").name))
					}
					sels = append(sels, fmt.Sprintf("%s: %s(input: {%s, name: \"n\"})", alias, field, strings.Join(parts, ", ")))
					usedSvc[svc] = true
					labels["variablesInsideLiteral"] = true
					break
				}
				v := pickVar("FileInput!")
				sels = append(sels, fmt.Sprintf("%s: uploadIn(input: $%s)", alias, v.name))
				usedSvc[0] = true
			case 3:
				v := pickVar("Upload!")
				sels = append(sels, fmt.Sprintf("%s: attach(file: $%s, note: \"n\") %s", alias, v.name, humanSel()))
				usedSvc[1] = true
			case 4:
				v := pickVar("FileInput")
				sels = append(sels, fmt.Sprintf("%s: attachIn(input: $%s)", alias, v.name))
				usedSvc[1] = true
			case 5:
				sels = append(sels, fmt.Sprintf("%s: plain(name: \"p\")", alias))
			case 6:
				sels = append(sels, fmt.Sprintf("%s: other(name: \"o\")", alias))
				usedSvc[1] = true
			}
		}
		if len(usedSvc) >= 2 {
			labels["twoServices"] = true
		}
		name := fmt.Sprintf("Up%d", oi)
		var decls []string
		vmap := map[string]interface{}{}
		for _, v := range vars {
			decls = append(decls, "$"+v.name+": "+v.typ)
			vmap[v.name] = v.value
			for _, s := range v.slots {
				p := "variables." + s
				if c.Batch {
					p = fmt.Sprintf("%d.%s", oi, p)
				}
				allSlots = append(allSlots, p)
			}
		}
		header := ""
		if len(decls) > 0 {
			header = "(" + strings.Join(decls, ", ") + ")"
		}
		q := "mutation " + name + header + " { " + strings.Join(sels, " ") + " }"
		c.Ops = append(c.Ops, gwx.GQLRequest{Query: q, Variables: vmap, OperationName: &name})
	}
	// Upload! variables must get a file; other slots get one mostly
	fileNames := []string{"a.txt", "b c.bin", `q"uote.txt`, "ünï.png", "x"}
	i := 0
	for i < len(allSlots) {
		f := UploadFile{Name: rapid.SampledFrom(fileNames).Draw(t, "fname"),
			ContentType: rapid.SampledFrom([]string{"", "", "image/png", "text/plain; charset=utf-8"}).Draw(t, "fctype")}
		size := rapid.SampledFrom([]int{0, 1, 7, 200, 5000, 65536}).Draw(t, "fsize")
		data := make([]byte, size)
		seed := rapid.IntRange(0, 255).Draw(t, "fseed")
		for j := range data {
			data[j] = byte((j*31 + seed) % 251)
		}
		f.DataB64 = base64.StdEncoding.EncodeToString(data)
		n := 1
		if rapid.IntRange(0, 3).Draw(t, "multipath") == 0 {
			n = rapid.IntRange(2, 3).Draw(t, "npaths")
		}
		for k := 0; k < n && i < len(allSlots); k++ {
			f.Paths = append(f.Paths, allSlots[i])
			i++
		}
		if len(f.Paths) > 1 {
			labels["oneFileManyPaths"] = true
		}
		c.Files = append(c.Files, f)
	}
	var ls []string
	for l := range labels {
		ls = append(ls, l)
	}
	sort.Strings(ls)
	return c, ls
}

func c19Gates(labels []string, c *UploadCase) []string {
	var gs []string
	for _, l := range labels {
		gs = append(gs, "upload."+l)
	}
	return gs
}

func TestC19(t *testing.T) {
	rec := ev.Get("C19")
	rec.Rule = "well-formed GraphQL multipart requests (single and batched 1..3 operations) against a two-service world whose mutations take Upload at top level, in lists, inside input objects (also in a list inside an object and two levels deep), the list or input object either a whole variable or a literal with Upload variables inside it; 1..3 root fields per operation over both services, selections on the returned entity that need child steps of which some take an Upload argument themselves (a child step with a file next to child steps without), a variable possibly used by two fields/services, one file attached at 1..3 paths, parts declared as application/octet-stream, image/png or text/plain, file names with quotes/unicode/spaces, contents 0..64 KiB; built by the harness's own encoder; in an eighth of the cases the first file-carrying downstream call is answered with 504 or with data plus an error (then: no mutation sub-request arrives twice, the failure is reported) or with a 308 redirect to the same url (then everything is as without it). Oracle: response equals the reference executor; every service whose sub-request declares the variable receives a multipart request in which the same path refers to a part with the same file name and bytes; services that do not use the variable receive plain JSON and no file; non-trivial = a file below an object or list level, or used by 2 services, or one file at >=2 paths; distinct by hash(case)"
	defer census.dump("C19")
	rapid.Check(t, func(t *rapid.T) {
		c, labels := genUploadCase(t)
		if len(c.Files) == 0 {
			rec.Class("skip:no-file-slot", 1)
			return
		}
		for _, g := range c19Gates(labels, c) {
			if gateClosed(g) {
				rec.Exclude(g)
				return
			}
		}
		if rapid.IntRange(0, 7).Draw(t, "uploadfault") == 0 {
			c.Fault = rapid.SampledFrom([]string{"status504", "errors-with-data", "redirect308"}).Draw(t, "uploadfaultkind")
			labels = append(labels, "uploadPathFault:"+c.Fault)
		}
		ev.Current("C19", c)
		nt := false
		for _, l := range labels {
			if l != "" {
				nt = true
			}
		}
		if c.Batch {
			labels = append(labels, "batch")
		}
		rec.Case(ev.Hash(c), nt, labels...)
		rec.Sample(nt, func() interface{} {
			s := *c
			s.World = nil
			for i := range s.Files {
				if len(s.Files[i].DataB64) > 40 {
					f := s.Files[i]
					f.DataB64 = f.DataB64[:40] + "…"
					s.Files = append(append([]UploadFile{}, s.Files[:i]...), append([]UploadFile{f}, s.Files[i+1:]...)...)
				}
			}
			return s
		})
		if f, _ := checkC19(c); f != nil {
			if isCensus() {
				census.add(f.Signature, fmt.Sprint(labels)+" "+c.Ops[0].Query+" ## "+trunc(f.Message, 300))
				return
			}
			if only := onlySig(); only != "" && !strings.HasPrefix(f.Signature, only) {
				return
			}
			ev.WriteFail("C19", c, f)
			t.Fatalf("%v", f)
		}
	})
}

// TestC19Large: the same round trip with files beyond the 32 MiB the request parser keeps in memory (such parts are
// spilled to disk by net/http and handed over as *os.File): one file of 33..40 MiB, others of 0..9 MiB.
func TestC19Large(t *testing.T) {
	rec := ev.Get("C19")
	dir, err := os.MkdirTemp(os.Getenv("VERIF_OUT"), "c19large")
	if err != nil {
		t.Fatal(err)
	}
	old, had := os.LookupEnv("TMPDIR")
	os.Setenv("TMPDIR", dir) // spilled parts land here and are removed with the directory
	defer func() {
		if had {
			os.Setenv("TMPDIR", old)
		} else {
			os.Unsetenv("TMPDIR")
		}
		os.RemoveAll(dir)
	}()
	rapid.Check(t, func(t *rapid.T) {
		c, labels := genUploadCase(t)
		if len(c.Files) == 0 {
			return
		}
		for _, g := range c19Gates(labels, c) {
			if gateClosed(g) {
				return
			}
		}
		if rapid.IntRange(0, 2).Draw(t, "sharedbig") > 0 {
			// one large file named by several operations of a batch (and by both services): every one of them reads it
			n := rapid.IntRange(2, 3).Draw(t, "sharedops")
			c = &UploadCase{World: uploadWorld(), Batch: true}
			f := UploadFile{Name: "big.bin"}
			for i := 0; i < n; i++ {
				name := fmt.Sprintf("Sh%d", i)
				q := fmt.Sprintf("mutation %s($v%d_0: Upload) { f0: upload(file: $v%d_0, name: \"x\") { id name } }", name, i, i)
				switch rapid.IntRange(0, 2).Draw(t, "sharedshape") {
				case 1:
					q = fmt.Sprintf("mutation %s($v%d_0: Upload!) { f0: attach(file: $v%d_0, note: \"n\") { id phone } }", name, i, i)
				case 2:
					// the file is only read by a child step, after the root step of this operation was answered
					q = fmt.Sprintf("mutation %s($v%d_0: Upload) { f0: upload(name: \"x\") { id name verify(doc: $v%d_0) } }", name, i, i)
				}
				c.Ops = append(c.Ops, gwx.GQLRequest{Query: q, Variables: map[string]interface{}{fmt.Sprintf("v%d_0", i): nil}, OperationName: &name})
				f.Paths = append(f.Paths, fmt.Sprintf("%d.variables.v%d_0", i, i))
			}
			c.Files = []UploadFile{f}
			c.SlowPlainUS = rapid.SampledFrom([]int{0, 300000, 800000}).Draw(t, "slowplain")
			labels = []string{"batch", "oneFileManyPaths", "oneLargeFileSeveralOperations"}
		}
		big := rapid.IntRange(0, len(c.Files)-1).Draw(t, "bigfile")
		for i := range c.Files {
			c.Files[i].DataB64 = ""
			c.Files[i].Seed = rapid.IntRange(0, 250).Draw(t, "lseed")
			if i == big {
				c.Files[i].Size = rapid.IntRange(33, 40).Draw(t, "bigmib") << 20
			} else {
				c.Files[i].Size = rapid.SampledFrom([]int{1, 4096, 1 << 20, 9 << 20}).Draw(t, "othersize")
			}
		}
		ev.Current("C19", c)
		rec.Case(ev.Hash(c), true, append(labels, "spilledToDisk")...)
		if f, _ := checkC19(c); f != nil {
			ev.WriteFail("C19", c, f)
			t.Fatalf("%v", f)
		}
	})
}

func init() {
	replayers["C19"] = func(path string) (*ev.Failure, error) {
		var c UploadCase
		if _, _, err := ev.LoadCase(path, &c); err != nil {
			return nil, err
		}
		if c.World == nil {
			c.World = uploadWorld()
		}
		f, _ := checkC19(&c)
		return f, nil
	}
}
