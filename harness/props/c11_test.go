package props

import (
	"bytes"
	"context"
	"encoding/json"
	"errors"
	"fmt"
	"io"
	"mime"
	"mime/multipart"
	"net/http"
	"sort"
	"strings"
	"sync"
	"testing"
	"time"

	"github.com/buildbuildio/pebbles/queryer"
	"github.com/buildbuildio/pebbles/requests"
	"github.com/buildbuildio/pebbles/verifhook"
	"pgregory.net/rapid"

	"verif/harness/ev"
	"verif/harness/fake"
)

// BatchCase: N sub-requests through MultiOpQueryer.Query with max batch size M.
type BatchCase struct {
	N        int    `json:"n"`
	M        int    `json:"m"`
	Priority []int  `json:"priority"`  // release priority per request token (calls are released by the smallest token priority they carry)
	FailTok  int    `json:"fail_tok"`  // the HTTP call carrying this token fails (-1: none)
	FailKind string `json:"fail_kind"` // transport | status500 | notjson | errors | errors-null-entry | ctx-cancelled
	Files    []int  `json:"files"`     // tokens whose request carries an upload (sent as multipart, one call each)
	// HoldFirst: the first HoldFirst chunk results ready for the reducer are held back until a later one is ready too
	// (the reducer does not have to see results in completion order; steered at the verif hook point amr.worker.sendRes)
	HoldFirst int `json:"hold_first,omitempty"`
	// Mutations: the requests are mutations (sub-requests of mutation root steps go through the same path)
	Mutations bool `json:"mutations,omitempty"`
}

type parkedCall struct {
	tokens  []int
	release chan struct{}
	prio    int
}

type batchTransport struct {
	mu       sync.Mutex
	c        *BatchCase
	calls    [][]int // tokens per HTTP call, in arrival order
	parked   []*parkedCall
	arrived  chan struct{}
	multiCT  []bool
	badShape string
}

func (bt *batchTransport) RoundTrip(req *http.Request) (*http.Response, error) {
	body, _ := io.ReadAll(req.Body)
	req.Body.Close()
	var tokens []int
	single := false
	ct, params, _ := mime.ParseMediaType(req.Header.Get("Content-Type"))
	if ct == "multipart/form-data" {
		form, err := multipart.NewReader(bytes.NewReader(body), params["boundary"]).ReadForm(1 << 20)
		if err != nil {
			return nil, fmt.Errorf("fake: bad multipart: %v", err)
		}
		var r struct {
			Variables map[string]interface{} `json:"variables"`
		}
		if err := json.Unmarshal([]byte(form.Value["operations"][0]), &r); err != nil {
			return nil, err
		}
		tok, _ := r.Variables["tok"].(float64)
		tokens = []int{int(tok)}
		single = true
	} else {
		var rs []struct {
			Variables map[string]interface{} `json:"variables"`
		}
		if err := json.Unmarshal(body, &rs); err != nil {
			bt.mu.Lock()
			bt.badShape = "request body is not a JSON array: " + string(body)
			bt.mu.Unlock()
			return nil, errors.New("fake: bad body")
		}
		for _, r := range rs {
			tok, _ := r.Variables["tok"].(float64)
			tokens = append(tokens, int(tok))
		}
	}
	pc := &parkedCall{tokens: tokens, release: make(chan struct{}), prio: 1 << 30}
	for _, tk := range tokens {
		if tk >= 0 && tk < len(bt.c.Priority) && bt.c.Priority[tk] < pc.prio {
			pc.prio = bt.c.Priority[tk]
		}
	}
	bt.mu.Lock()
	bt.calls = append(bt.calls, tokens)
	bt.parked = append(bt.parked, pc)
	bt.mu.Unlock()
	select {
	case bt.arrived <- struct{}{}:
	default:
	}
	<-pc.release

	fail := false
	for _, tk := range tokens {
		if tk == bt.c.FailTok {
			fail = true
		}
	}
	if fail {
		switch bt.c.FailKind {
		case "transport":
			return nil, fake.TransportError(fmt.Sprint(tokens))
		case "ctx-cancelled":
			// what an http client reports for a call whose context ended while it was in flight
			return nil, context.Canceled
		case "status500":
			return jsonResp(500, []byte(`{"errors":[{"message":"boom"}]}`)), nil
		case "status503-list":
			// a failed call whose body looks like a complete answer (a proxy serving a stale body with its error status)
			if single {
				b, _ := json.Marshal(map[string]interface{}{"data": map[string]interface{}{"echo": tokens[0]}})
				return jsonResp(503, b), nil
			}
			out := make([]map[string]interface{}, len(tokens))
			for i, tk := range tokens {
				out[i] = map[string]interface{}{"data": map[string]interface{}{"echo": tk}}
			}
			b, _ := json.Marshal(out)
			return jsonResp(503, b), nil
		case "notjson":
			return jsonResp(200, []byte(`<html>`)), nil
		case "errors", "errors-null-entry":
			var errs interface{} = []interface{}{map[string]interface{}{"message": "downstream says no"}}
			if bt.c.FailKind == "errors-null-entry" {
				errs = []interface{}{nil} // an errors list whose only entry is null is still a failure
			}
			if single {
				b, _ := json.Marshal(map[string]interface{}{"data": nil, "errors": errs})
				return jsonResp(200, b), nil
			}
			out := make([]map[string]interface{}, len(tokens))
			for i, tk := range tokens {
				out[i] = map[string]interface{}{"data": map[string]interface{}{"echo": tk}}
				if tk == bt.c.FailTok {
					out[i] = map[string]interface{}{"data": nil, "errors": errs}
				}
			}
			b, _ := json.Marshal(out)
			return jsonResp(200, b), nil
		}
	}
	if single {
		b, _ := json.Marshal(map[string]interface{}{"data": map[string]interface{}{"echo": tokens[0]}})
		return jsonResp(200, b), nil
	}
	out := make([]map[string]interface{}, len(tokens))
	for i, tk := range tokens {
		out[i] = map[string]interface{}{"data": map[string]interface{}{"echo": tk}}
	}
	b, _ := json.Marshal(out)
	return jsonResp(200, b), nil
}

func jsonResp(status int, body []byte) *http.Response {
	return &http.Response{StatusCode: status, Status: fmt.Sprint(status), Proto: "HTTP/1.1", ProtoMajor: 1, ProtoMinor: 1,
		Header: http.Header{"Content-Type": []string{"application/json"}}, Body: io.NopCloser(bytes.NewReader(body)), ContentLength: int64(len(body))}
}

// scheduler releases parked calls: waits for quiescence, then releases the parked call with the smallest priority.
func (bt *batchTransport) schedule(done <-chan struct{}) {
	for {
		select {
		case <-done:
			bt.mu.Lock()
			for _, p := range bt.parked {
				close(p.release)
			}
			bt.parked = nil
			bt.mu.Unlock()
			return
		case <-bt.arrived:
		case <-time.After(300 * time.Microsecond):
		}
		// quiescence: let further calls arrive
		for i := 0; i < 3; i++ {
			select {
			case <-bt.arrived:
				i = -1
			case <-time.After(150 * time.Microsecond):
			}
		}
		bt.mu.Lock()
		if len(bt.parked) > 0 {
			best := 0
			for i, p := range bt.parked {
				if p.prio < bt.parked[best].prio {
					best = i
				}
			}
			p := bt.parked[best]
			bt.parked = append(bt.parked[:best], bt.parked[best+1:]...)
			close(p.release)
		}
		bt.mu.Unlock()
	}
}

func checkC11(c *BatchCase) *ev.Failure {
	bt := &batchTransport{c: c, arrived: make(chan struct{}, 1)}
	q := queryer.NewMultiOpQueryer("http://svc.test/graphql", c.M).WithHTTPClient(&http.Client{Transport: bt})
	isFile := map[int]bool{}
	for _, f := range c.Files {
		isFile[f] = true
	}
	inputs := make([]*requests.Request, c.N)
	for i := range inputs {
		vars := map[string]interface{}{"tok": i}
		if isFile[i] {
			vars["file"] = &requests.Upload{File: io.NopCloser(strings.NewReader(fmt.Sprintf("content-%d", i))), FileName: fmt.Sprintf("f%d.txt", i)}
		}
		kw := "query Q"
		if c.Mutations {
			kw = "mutation M"
		}
		inputs[i] = &requests.Request{Query: fmt.Sprintf("%s%d($tok: Int) { echo(tok: $tok) }", kw, i), Variables: vars}
	}
	type out struct {
		res []map[string]interface{}
		err error
		pan string
	}
	if c.HoldFirst > 0 && verifhook.Enabled {
		var mu sync.Mutex
		arrivals := 0
		later := make(chan struct{})
		verifhook.Set(func(p string) {
			if p != "amr.worker.sendRes" {
				return
			}
			mu.Lock()
			arrivals++
			mine := arrivals
			if mine == c.HoldFirst+1 {
				close(later)
			}
			mu.Unlock()
			if mine <= c.HoldFirst {
				select {
				case <-later:
					time.Sleep(200 * time.Microsecond) // let the later result reach the reducer first
				case <-time.After(50 * time.Millisecond):
				}
			}
		})
		defer verifhook.Set(nil)
	}
	done := make(chan struct{})
	resCh := make(chan out, 1)
	go bt.schedule(done)
	go func() {
		var o out
		defer func() {
			if r := recover(); r != nil {
				o.pan = fmt.Sprint(r)
			}
			resCh <- o
		}()
		o.res, o.err = q.Query(inputs)
	}()
	var o out
	select {
	case o = <-resCh:
	case <-time.After(20 * time.Second):
		close(done)
		return ev.Failf("hang", "Query did not return within 20s (N=%d m=%d)", c.N, c.M)
	}
	close(done)
	if o.pan != "" {
		return ev.Failf("panic", "Query panicked: %s", o.pan)
	}
	bt.mu.Lock()
	calls := append([][]int{}, bt.calls...)
	bad := bt.badShape
	bt.mu.Unlock()
	if bad != "" {
		return ev.Failf("shape", "%s", bad)
	}
	// per-call limits and exactly-once sending hold whether or not a call failed
	seen := map[int]int{}
	for _, call := range calls {
		if len(call) > c.M {
			return ev.Failf("oversize", "an HTTP call carries %d requests, max batch size is %d", len(call), c.M)
		}
		for _, tk := range call {
			seen[tk]++
		}
	}
	for tk, n := range seen {
		if n > 1 {
			return ev.Failf("duplicate-send", "request %d was sent in %d HTTP calls", tk, n)
		}
	}
	failing := c.FailTok >= 0 && c.FailTok < c.N
	if failing {
		if o.err == nil {
			return ev.Failf("partial-on-error", "the call carrying request %d failed (%s) but Query returned no error", c.FailTok, c.FailKind)
		}
		if o.res != nil {
			return ev.Failf("partial-on-error", "Query returned an error together with %d results", len(o.res))
		}
	} else {
		if o.err != nil {
			return ev.Failf("error", "Query failed without an injected fault: %v", o.err)
		}
		if len(o.res) != c.N {
			return ev.Failf("count", "Query returned %d results for %d requests", len(o.res), c.N)
		}
		for i, r := range o.res {
			got, ok := r["echo"].(float64)
			if !ok || int(got) != i {
				return ev.Failf("misplaced", "result %d answers request %v (m=%d, N=%d)", i, r["echo"], c.M, c.N)
			}
		}
		for i := 0; i < c.N; i++ {
			if seen[i] != 1 {
				return ev.Failf("missing-send", "request %d was sent in %d HTTP calls", i, seen[i])
			}
		}
	}
	deadline := time.Now().Add(20 * time.Second)
	for amrGoroutines() > 0 {
		if time.Now().After(deadline) {
			return ev.Failf("leak", "goroutines of AsyncMapReduce remain after Query returned")
		}
		time.Sleep(200 * time.Microsecond)
	}
	return nil
}

func c11Labels(c *BatchCase) []string {
	var l []string
	if c.N > c.M {
		l = append(l, "chunked")
		switch {
		case c.N%c.M == 0:
			l = append(l, "N=k*m")
		case c.N%c.M == 1:
			l = append(l, "N=k*m+1")
		case c.N%c.M == c.M-1:
			l = append(l, "N=k*m-1")
		}
	}
	if c.FailTok >= 0 && c.FailTok < c.N {
		l = append(l, "fault:"+c.FailKind)
	}
	if len(c.Files) > 0 {
		l = append(l, "files")
	}
	if c.N == 0 {
		l = append(l, "N=0")
	}
	if c.HoldFirst > 0 {
		l = append(l, "firstResultsHeld")
	}
	if c.Mutations {
		l = append(l, "mutations")
	}
	return l
}

func TestC11(t *testing.T) {
	rec := ev.Get("C11")
	rec.Rule = "N sub-requests (0..60; 0..200 thorough) x max batch size m (1..16; 1..40 thorough) x completion order of the concurrent HTTP calls (a fake RoundTripper parks every call and releases them by drawn priorities) x optional failing call (transport error, 500, non-JSON, GraphQL errors, null error entry, context.Canceled, 503 with a complete-looking list) x optional upload-carrying requests; x optionally the first 1..2 ready chunk results held back until a later one is ready (verif hook point in AsyncMapReduce); plus the exhaustive grid N 0..40 x m 1..12 x {FIFO, LIFO, first-result-held} (TestC11Grid). non-trivial = N > m (chunked); distinct by hash(case)"
	maxN, maxM := 60, 16
	if ev.Thorough() {
		maxN, maxM = 200, 40
	}
	rapid.Check(t, func(t *rapid.T) {
		c := &BatchCase{N: rapid.IntRange(0, maxN).Draw(t, "n"), M: rapid.IntRange(1, maxM).Draw(t, "m"), FailTok: -1}
		if rapid.IntRange(0, 3).Draw(t, "boundary") == 0 {
			k := rapid.IntRange(1, 6).Draw(t, "k")
			c.N = k*c.M + rapid.IntRange(-1, 1).Draw(t, "delta")
			if c.N < 0 {
				c.N = 0
			}
		}
		c.Priority = rapid.Permutation(seq(c.N)).Draw(t, "prio")
		if c.N > 0 && rapid.IntRange(0, 3).Draw(t, "fail") == 0 {
			c.FailTok = rapid.IntRange(0, c.N-1).Draw(t, "failtok")
			c.FailKind = rapid.SampledFrom([]string{"transport", "status500", "notjson", "errors", "errors-null-entry", "ctx-cancelled", "status503-list"}).Draw(t, "failkind")
		}
		if c.N > 0 && rapid.IntRange(0, 4).Draw(t, "files") == 0 {
			nf := rapid.IntRange(1, minInt(3, c.N)).Draw(t, "nfiles")
			for i := 0; i < nf; i++ {
				c.Files = append(c.Files, rapid.IntRange(0, c.N-1).Draw(t, "file"))
			}
			sort.Ints(c.Files)
		}
		c.Mutations = rapid.IntRange(0, 3).Draw(t, "mutations") == 0
		if c.N > c.M && rapid.IntRange(0, 3).Draw(t, "hold") == 0 {
			c.HoldFirst = rapid.IntRange(1, 2).Draw(t, "holdfirst")
		}
		ev.Current("C11", c)
		nt := c.N > c.M
		rec.Case(ev.Hash(c), nt, c11Labels(c)...)
		rec.Sample(nt, func() interface{} { return c })
		if f := checkC11(c); f != nil {
			ev.WriteFail("C11", c, f)
			t.Fatalf("%v", f)
		}
	})
}

// TestC11Grid enumerates N 0..40 x m 1..12 exhaustively, with FIFO and LIFO completion order and with the first ready result held back.
func TestC11Grid(t *testing.T) {
	rec := ev.Get("C11")
	count := 0
	for n := 0; n <= 40; n++ {
		for m := 1; m <= 12; m++ {
			for mode := 0; mode < 3; mode++ {
				rev := mode == 1
				c := &BatchCase{N: n, M: m, FailTok: -1, Priority: seq(n)}
				if rev {
					for i := range c.Priority {
						c.Priority[i] = n - 1 - i
					}
				}
				if mode == 2 {
					if n <= m {
						continue // one call, nothing to reorder
					}
					c.HoldFirst = 1
				}
				ev.Current("C11", c)
				rec.Case(ev.Hash(c), n > m, append(c11Labels(c), "grid")...)
				if f := checkC11(c); f != nil {
					ev.WriteFail("C11", c, f)
					t.Fatalf("%v", f)
				}
				count++
			}
		}
	}
	rec.SetExtra("grid_cases", count)
	rec.SetExtra("grid_exhaustive", true)
}

func init() {
	replayers["C11"] = func(path string) (*ev.Failure, error) {
		var c BatchCase
		if _, _, err := ev.LoadCase(path, &c); err != nil {
			return nil, err
		}
		if c.M < 1 || len(c.Priority) != c.N {
			return nil, errors.New("bad case")
		}
		return checkC11(&c), nil
	}
}
