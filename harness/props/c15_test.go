package props

import (
	"bytes"
	"encoding/json"
	"fmt"
	"io"
	"net/http"
	"runtime/debug"
	"strings"
	"sync"
	"testing"
	"time"

	pintro "github.com/buildbuildio/pebbles/introspection"
	"github.com/buildbuildio/pebbles/queryer"
	"github.com/vektah/gqlparser/v2"
	"github.com/vektah/gqlparser/v2/ast"
	"pgregory.net/rapid"

	"verif/harness/ev"
	"verif/harness/introspect"
	"verif/harness/opgen"
	"verif/harness/refexec"
	"verif/harness/sdlgen"
)

// IntrospectCase: service schemas served by a spec-compliant introspection responder.
type IntrospectCase struct {
	SDLs   []string `json:"sdls"`
	Labels []string `json:"labels,omitempty"`
	// Ops: operations (valid or not) whose validation verdict must agree between S and its reconstruction
	Ops []ServiceOp `json:"ops,omitempty"`
	// EmptyErrors: the services add "errors": [] to their (successful) answers
	EmptyErrors bool `json:"empty_errors,omitempty"`
	// SameHost: the services live at different paths of one host (http://intro.test/s<i>/graphql)
	SameHost bool `json:"same_host,omitempty"`
	// SlowUS: every answer takes this long, so that the parallel introspection requests overlap
	SlowUS int `json:"slow_us,omitempty"`
	// FailService answers its first FailCount requests with status 503 (a service that is just starting); -1 = none
	FailService int `json:"fail_service"`
	FailCount   int `json:"fail_count,omitempty"`
}

// specResponder answers whatever introspection operation it is sent, per the spec.
type specResponder struct {
	schemas map[string]*ast.Schema
	queries int
	slow    time.Duration
	failURL string
	failN   int
	mu      sync.Mutex
}

func (sr *specResponder) RoundTrip(req *http.Request) (*http.Response, error) {
	body, _ := io.ReadAll(req.Body)
	req.Body.Close()
	schema := sr.schemas[req.URL.String()]
	if schema == nil {
		return nil, fmt.Errorf("no service at %s", req.URL)
	}
	if sr.slow > 0 {
		time.Sleep(sr.slow)
	}
	sr.mu.Lock()
	fail := req.URL.String() == sr.failURL && sr.failN > 0
	if fail {
		sr.failN--
	}
	sr.mu.Unlock()
	if fail {
		return jsonResp(503, []byte("service unavailable")), nil
	}
	sr.mu.Lock()
	defer sr.mu.Unlock()
	var reqs []rawGQL
	if err := json.Unmarshal(body, &reqs); err != nil {
		return jsonResp(400, []byte(`{"errors":[{"message":"bad request"}]}`)), nil
	}
	out := make([]map[string]interface{}, len(reqs))
	for i, r := range reqs {
		sr.queries++
		out[i] = answerIntrospection(schema, r.Query, r.OperationName, r.Variables)
	}
	b, _ := json.Marshal(out)
	return jsonResp(200, b), nil
}

type rawGQL struct {
	Query         string                 `json:"query"`
	Variables     map[string]interface{} `json:"variables"`
	OperationName *string                `json:"operationName"`
}

func answerIntrospection(schema *ast.Schema, query string, opName *string, vars map[string]interface{}) map[string]interface{} {
	doc, errs := gqlparser.LoadQuery(schema, query)
	if errs != nil {
		return map[string]interface{}{"data": nil, "errors": []interface{}{map[string]interface{}{"message": errs.Error()}}}
	}
	op, err := refexec.PickOperation(doc, opName)
	if err != nil {
		return map[string]interface{}{"data": nil, "errors": []interface{}{map[string]interface{}{"message": err.Error()}}}
	}
	r := &introspect.Resolver{Schema: schema, Vars: vars}
	root := "Query"
	if schema.Query != nil {
		root = schema.Query.Name
	}
	ans := map[string]interface{}{"data": r.ResolveRoot(op.SelectionSet, root)}
	if emptyErrorsKey {
		ans["errors"] = []interface{}{} // some servers always send the key; an empty list is no error
	}
	return ans
}

// emptyErrorsKey: the fake services add "errors": [] to their successful introspection answers (set per case)
var emptyErrorsKey bool

func c15Facts(s *ast.Schema) map[string]bool {
	return schemaFacts(s, factOpts{Descriptions: true, Deprecations: true, Roots: true})
}

func checkC15(c *IntrospectCase) *ev.Failure {
	emptyErrorsKey = c.EmptyErrors
	defer func() { emptyErrorsKey = false }()
	sr := &specResponder{schemas: map[string]*ast.Schema{}, slow: time.Duration(c.SlowUS) * time.Microsecond}
	var urls []string
	var sources []*ast.Schema
	for i, sdl := range c.SDLs {
		s, err := gqlparser.LoadSchema(&ast.Source{Name: fmt.Sprint("svc", i), Input: sdl})
		if err != nil {
			return ev.Failf("harness", "generated SDL does not load: %v\n%s", err, sdl)
		}
		u := fmt.Sprintf("http://intro-%d.test/graphql", i)
		if c.SameHost {
			u = fmt.Sprintf("http://intro.test/s%d/graphql", i)
		}
		if i == c.FailService && c.FailCount > 0 {
			sr.failURL, sr.failN = u, c.FailCount
		}
		urls = append(urls, u)
		sources = append(sources, s)
		sr.schemas[u] = s
	}
	intro := &pintro.ParallelRemoteSchemaIntrospector{Factory: func(url string) queryer.Queryer {
		return queryer.NewMultiOpQueryer(url, 1).WithHTTPClient(&http.Client{Transport: sr})
	}}
	var got []*ast.Schema
	var ierr error
	var pan string
	func() {
		defer func() {
			if r := recover(); r != nil {
				pan = fmt.Sprintf("%v\n%s", r, debug.Stack())
			}
		}()
		got, ierr = intro.IntrospectRemoteSchemas(urls...)
	}()
	if pan != "" {
		return ev.Failf("panic", "IntrospectRemoteSchemas panicked: %s", trunc(pan, 1000))
	}
	deep := false
	for _, l := range c.Labels {
		if l == "wrappersDeeperThanQuery" {
			deep = true
		}
	}
	if ierr != nil {
		if c.FailCount > 0 && c.FailService >= 0 && c.FailService < len(c.SDLs) {
			return nil // a service that answers 503 may fail the start-up; what must not happen is a wrong schema for a url
		}
		if deep {
			return nil // a schema that cannot be reconstructed is reported as a start-up error: allowed for this class only
		}
		return ev.Failf("startup-error", "a valid schema served by a spec-compliant responder is rejected: %v", ierr)
	}
	if len(got) != len(sources) {
		return ev.Failf("count", "%d schemas for %d urls", len(got), len(sources))
	}
	for i := range sources {
		want := c15Facts(sources[i])
		have := c15Facts(got[i])
		for _, f := range sortedFacts(want) {
			if !have[f] {
				return ev.Failf("differs:"+factKind(f)+":lost", "service %d declares %q; the reconstruction does not have it", i, f)
			}
		}
		for _, f := range sortedFacts(have) {
			if !want[f] {
				return ev.Failf("differs:"+factKind(f)+":invented", "the reconstruction of service %d has %q which the service does not declare", i, f)
			}
		}
	}
	for _, op := range c.Ops {
		if op.Service >= len(sources) {
			continue
		}
		_, e1 := gqlparser.LoadQuery(sources[op.Service], op.Query)
		_, e2 := gqlparser.LoadQuery(got[op.Service], op.Query)
		if (e1 == nil) != (e2 == nil) {
			return ev.Failf("verdict", "operation is valid=%v against S but valid=%v against the reconstruction (%v / %v)\n%s", e1 == nil, e2 == nil, e1, e2, op.Query)
		}
	}
	return nil
}

var c15FeatureLabels = []string{"argDefault", "inputDefault", "nestedWrappers", "directiveWithArgs", "deprecation", "interface", "union", "customScalar"}

func c15GateFor(fact string) string { return "remote." + fact }

func TestC15(t *testing.T) {
	rec := ev.Get("C15")
	rec.Rule = "1..3 (now and then 9..12) generated schemas (every type kind, wrappers up to 4 levels, argument/input/directive defaults of every value kind, descriptions, deprecations, directive definitions, interface inheritance, custom root names; labelled class with wrappers deeper than the introspection query) served by a spec-compliant responder behind the real MultiOpQueryer and ParallelRemoteSchemaIntrospector, optionally all at one host under different paths, with answers that take 0.2-3 ms (overlapping), and with one service answering its first 1-2 requests with 503 (then a start-up error is accepted, a schema paired with the wrong url is not); oracle: bidirectional equality of schema facts incl. descriptions, deprecations, defaults, roots; same validation verdict for generated valid and single-edit invalid operations; non-trivial = a schema using >=3 of {arg default, input default, nested wrappers, directive with args, deprecation, interface, union, custom scalar}; distinct by hash(SDLs)"
	defer census.dump("C15")
	rapid.Check(t, func(t *rapid.T) {
		n := rapid.SampledFrom([]int{1, 1, 1, 2, 3}).Draw(t, "nschemas")
		if rapid.IntRange(0, 19).Draw(t, "manyservices") == 0 {
			n = rapid.IntRange(9, 12).Draw(t, "nmany") // more services than any batch of parallel introspections
		}
		c := &IntrospectCase{EmptyErrors: rapid.IntRange(0, 3).Draw(t, "emptyerrors") == 0, FailService: -1}
		if n > 1 {
			c.SameHost = rapid.IntRange(0, 2).Draw(t, "samehost") == 0
			if rapid.IntRange(0, 2).Draw(t, "slow") == 0 {
				c.SlowUS = rapid.IntRange(200, 3000).Draw(t, "slowus")
			}
			if rapid.IntRange(0, 3).Draw(t, "transient") == 0 {
				c.FailService = rapid.IntRange(0, n-1).Draw(t, "failsvc")
				c.FailCount = rapid.IntRange(1, 2).Draw(t, "failcount")
			}
		}
		o := sdlgen.DefaultOptions()
		o.DeepWrappers = rapid.IntRange(0, 9).Draw(t, "deep") == 0
		// closed gates of open findings switch generator features off (counted by the classifier below)
		for _, g := range closedGates() {
			switch g {
			case "remote.argDefaults", "remote.inputDefaults", "remote.directiveArgDefaults":
			case "remote.deprecation":
				o.Deprecations = false
			case "remote.customRoots":
				o.CustomRoots = false
			case "remote.specifiedBy":
				o.SpecifiedBy = false
			}
		}
		labels := map[string]bool{}
		for i := 0; i < n; i++ {
			r := sdlgen.Generate(t, o)
			c.SDLs = append(c.SDLs, r.SDL)
			for _, l := range r.Labels {
				labels[l] = true
			}
		}
		for l := range labels {
			c.Labels = append(c.Labels, l)
		}
		// operations for the verdict clause
		if s0, err := gqlparser.LoadSchema(&ast.Source{Name: "s0", Input: c.SDLs[0]}); err == nil && s0.Query != nil && s0.Query.Name == "Query" {
			oo := opgen.DefaultOptions()
			oo.NodeRoot = false
			if op := opgen.Generate(t, s0, oo); op != nil {
				c.Ops = append(c.Ops, ServiceOp{Service: 0, Query: op.Query})
				ek := editKinds[rapid.IntRange(0, len(editKinds)-1).Draw(t, "edit")]
				if q, _, ok := applyEditKind(t, ek, s0, op.Query, op.OperationName); ok {
					c.Ops = append(c.Ops, ServiceOp{Service: 0, Query: q})
				}
			}
		}
		for _, g := range closedGates() {
			if c15HasFeature(c, g) {
				rec.Exclude(g)
				return
			}
		}
		ev.Current("C15", c)
		k := 0
		for _, l := range c15FeatureLabels {
			if labels[l] {
				k++
			}
		}
		nt := k >= 3
		var ls []string
		for l := range labels {
			ls = append(ls, l)
		}
		ls = append(ls, fmt.Sprintf("schemas=%d", n))
		rec.Case(ev.Hash(c.SDLs), nt, ls...)
		rec.Sample(nt, func() interface{} { return map[string]interface{}{"sdl": c.SDLs[0], "labels": c.Labels} })
		if f := checkC15(c); f != nil {
			if isCensus() {
				census.add(f.Signature, trunc(f.Message, 300))
				return
			}
			if only := onlySig(); only != "" && !strings.HasPrefix(f.Signature, only) {
				return
			}
			ev.WriteFail("C15", c, f)
			t.Fatalf("%v", f)
		}
	})
}

// c15HasFeature: syntactic feature classes of schemas used as gates of open findings.
func c15HasFeature(c *IntrospectCase, gate string) bool {
	for _, sdl := range c.SDLs {
		s, err := gqlparser.LoadSchema(&ast.Source{Input: sdl})
		if err != nil {
			continue
		}
		switch gate {
		case "remote.argDefaults":
			for _, d := range s.Types {
				if strings.HasPrefix(d.Name, "__") {
					continue
				}
				for _, f := range d.Fields {
					for _, a := range f.Arguments {
						if a.DefaultValue != nil {
							return true
						}
					}
				}
			}
		case "remote.directiveArgs":
			for n, d := range s.Directives {
				if !builtinDirectives[n] && len(d.Arguments) > 0 {
					return true
				}
			}
		case "remote.inputDefaults":
			for _, d := range s.Types {
				if d.Kind == ast.InputObject {
					for _, f := range d.Fields {
						if f.DefaultValue != nil {
							return true
						}
					}
				}
			}
		case "remote.deprecation":
			if strings.Contains(sdl, "@deprecated") {
				return true
			}
		case "remote.customRoots":
			if strings.Contains(sdl, "schema {") {
				return true
			}
		case "remote.specifiedBy":
			if strings.Contains(sdl, "@specifiedBy") {
				return true
			}
		case "remote.repeatableDirective":
			if strings.Contains(sdl, " repeatable ") {
				return true
			}
		case "remote.interfaceImplementsInterface":
			for _, d := range s.Types {
				if d.Kind == ast.Interface && len(d.Interfaces) > 0 {
					return true
				}
			}
		case "remote.blockDescriptions":
			if strings.Contains(sdl, `"""`) || strings.Contains(sdl, `\"`) || strings.Contains(sdl, `\\`) {
				return true
			}
		case "remote.wrappersDeeperThanQuery":
			for _, l := range c.Labels {
				if l == "wrappersDeeperThanQuery" {
					return true
				}
			}
		}
	}
	return false
}

// TestSelfIntrospection: the harness's responder and standard client are inverse to each other on generated schemas.
func TestSelfIntrospection(t *testing.T) {
	rapid.Check(t, func(t *rapid.T) {
		r := sdlgen.Generate(t, sdlgen.DefaultOptions())
		s, err := gqlparser.LoadSchema(&ast.Source{Name: "gen", Input: r.SDL})
		if err != nil {
			t.Fatalf("generated SDL does not load: %v\n%s", err, r.SDL)
		}
		ans := answerIntrospection(s, introspect.StandardQuery, nil, nil)
		if ans["errors"] != nil {
			t.Fatalf("responder rejects the standard query: %v", ans["errors"])
		}
		var data map[string]interface{}
		b, _ := json.Marshal(ans["data"])
		json.NewDecoder(bytes.NewReader(b)).Decode(&data)
		sdl, err := introspect.BuildSDL(data)
		if err != nil {
			t.Fatalf("client cannot build SDL: %v", err)
		}
		back, err := gqlparser.LoadSchema(&ast.Source{Name: "back", Input: sdl})
		if err != nil {
			t.Fatalf("rebuilt SDL does not load: %v\n%s", err, sdl)
		}
		a, bb := c15Facts(s), c15Facts(back)
		for _, f := range sortedFacts(a) {
			if !bb[f] {
				t.Fatalf("round trip lost %q\n--- source\n%s\n--- rebuilt\n%s", f, r.SDL, sdl)
			}
		}
		for _, f := range sortedFacts(bb) {
			if !a[f] {
				t.Fatalf("round trip invented %q\n--- source\n%s\n--- rebuilt\n%s", f, r.SDL, sdl)
			}
		}
	})
}

func init() {
	replayers["C15"] = func(path string) (*ev.Failure, error) {
		var raw RawIntrospectCase
		if _, _, err := ev.LoadCase(path, &raw); err == nil && raw.DataJSON != "" {
			return checkRawIntrospect(&raw), nil
		}
		var c IntrospectCase
		if _, _, err := ev.LoadCase(path, &c); err != nil {
			return nil, err
		}
		return checkC15(&c), nil
	}
}
