// Package feat classifies an operation (post-hoc, on the parsed document) into
// syntactic feature classes. The classes serve two purposes: evidence
// histograms, and the gates of open known findings (a case showing a gated
// feature is excluded from the search and counted).
package feat

import (
	"sort"

	"github.com/vektah/gqlparser/v2/ast"
)

type Set map[string]bool

func (s Set) List() []string {
	r := make([]string, 0, len(s))
	for k, v := range s {
		if v {
			r = append(r, k)
		}
	}
	sort.Strings(r)
	return r
}

type analyzer struct {
	schema           *ast.Schema
	vars             map[string]interface{}
	set              Set
	frags            map[string]bool
	varPos           map[string]string // variable -> expected type at first use
	spreadCount      map[string]int
	fragSeq, curFrag int
	fragIDs          []int
	owners           map[string][]int // "Type.field" -> services declaring it (optional)
	// a client variable called id: declared / used anywhere but in the arguments of root fields
	idVarDeclared, idVarBelowRoot, inRootArgs bool
	skipAbstractOnce, nodeRootScope           bool
}

// Operation computes the feature set of op (with the document's fragments) for the given variables.
func Operation(schema *ast.Schema, op *ast.OperationDefinition, vars map[string]interface{}) Set {
	return OperationWithOwners(schema, op, vars, nil)
}

// OperationWithOwners additionally knows which services declare each object field (world-dependent classes).
func OperationWithOwners(schema *ast.Schema, op *ast.OperationDefinition, vars map[string]interface{}, owners map[string][]int) Set {
	a := &analyzer{schema: schema, vars: vars, set: Set{}, frags: map[string]bool{}, varPos: map[string]string{}, owners: owners}
	for _, vd := range op.VariableDefinitions {
		if vd.Variable == "id" {
			a.idVarDeclared = true
		}
		if vd.DefaultValue != nil {
			a.set["op.variableDefaultDeclared"] = true
			if _, ok := vars[vd.Variable]; !ok {
				a.set["op.variableDefaults"] = true // default is what the operation must use
			}
		}
		if _, ok := vars[vd.Variable]; !ok && vd.DefaultValue == nil {
			a.set["op.variableAbsentNoDefault"] = true
		}
		if v, ok := vars[vd.Variable]; ok && v == nil {
			a.set["op.variableExplicitNull"] = true
		}
	}
	var root *ast.Definition
	switch op.Operation {
	case ast.Query:
		root = schema.Query
	case ast.Mutation:
		root = schema.Mutation
	case ast.Subscription:
		root = schema.Subscription
	}
	a.scope(op.SelectionSet, root, 0, true)
	if a.idVarDeclared {
		if a.idVarBelowRoot {
			a.set["op.variableNamedId"] = true // can reach a child step, where the gateway's own $id lives (KF-C01-12)
		} else {
			a.set["op.variableNamedIdRootOnly"] = true
		}
	}
	return a.set
}

type flatField struct {
	f      *ast.Field
	inFrag bool   // reached through an inline fragment / spread
	cond   string // innermost type condition
	frag   int    // id of the outermost fragment instance in this scope (0 = direct)
}

func (a *analyzer) flatten(ss ast.SelectionSet, inFrag bool, cond string, out *[]flatField, depth int) {
	for _, sel := range ss {
		if depth == 0 {
			if _, isField := sel.(*ast.Field); !isField {
				a.fragSeq++
				a.curFrag = a.fragSeq
				a.fragIDs = append(a.fragIDs, a.curFrag)
			} else {
				a.curFrag = 0
			}
		}
		switch s := sel.(type) {
		case *ast.Field:
			*out = append(*out, flatField{f: s, inFrag: inFrag, cond: cond, frag: a.curFrag})
		case *ast.InlineFragment:
			a.dirs(s.Directives, true)
			if s.TypeCondition == "" {
				a.set["op.inlineFragmentNoCondition"] = true
			}
			c := s.TypeCondition
			if c == "" {
				c = cond
			}
			a.flatten(s.SelectionSet, true, c, out, depth+1)
		case *ast.FragmentSpread:
			a.set["op.namedFragment"] = true
			a.frags[s.Name+"#spread"] = a.frags[s.Name+"#spread"] || false
			if a.spreadCount == nil {
				a.spreadCount = map[string]int{}
			}
			a.spreadCount[s.Name]++
			if a.spreadCount[s.Name] >= 2 {
				a.set["op.namedFragmentUsedTwice"] = true
			}
			a.dirs(s.Directives, true)
			if s.Definition != nil && depth < 20 {
				a.flatten(s.Definition.SelectionSet, true, s.Definition.TypeCondition, out, depth+1)
			}
		}
	}
}

func (a *analyzer) dirs(dl ast.DirectiveList, onFragment bool) {
	for _, d := range dl {
		a.set["op.directives"] = true
		if onFragment {
			a.set["op.directiveOnFragment"] = true
		}
		for _, arg := range d.Arguments {
			if arg.Value != nil && arg.Value.Kind == ast.Variable {
				a.set["op.directiveVariables"] = true
				if arg.Value.Raw == "id" {
					a.idVarBelowRoot = true // directives are not followed to their step: counted as below the root
				}
			}
		}
	}
}

func selText(ss ast.SelectionSet) string {
	// cheap structural fingerprint of a selection set
	s := ""
	for _, sel := range ss {
		switch x := sel.(type) {
		case *ast.Field:
			s += x.Alias + ":" + x.Name + argText(x.Arguments) + "{" + selText(x.SelectionSet) + "}"
		case *ast.InlineFragment:
			s += "...on " + x.TypeCondition + "{" + selText(x.SelectionSet) + "}"
		case *ast.FragmentSpread:
			s += "..." + x.Name
		}
	}
	return s
}

func argText(al ast.ArgumentList) string {
	s := "("
	for _, a := range al {
		s += a.Name + ":" + a.Value.String() + ","
	}
	return s + ")"
}

func (a *analyzer) values(v *ast.Value, depth int) {
	if v == nil {
		return
	}
	switch v.Kind {
	case ast.Variable:
		if v.Raw == "id" && !a.inRootArgs {
			a.idVarBelowRoot = true
		}
		if depth > 0 {
			a.set["op.variableInsideInputValue"] = true
		}
		if v.ExpectedType != nil {
			et := v.ExpectedType.String()
			if prev, ok := a.varPos[v.Raw]; ok && prev != et {
				a.set["op.variablePositionsDiffer"] = true
			}
			a.varPos[v.Raw] = et
		}
	case ast.NullValue:
		a.set["op.nullLiteral"] = true
	}
	for _, c := range v.Children {
		a.values(c.Value, depth+1)
	}
}

func (a *analyzer) scope(ss ast.SelectionSet, parent *ast.Definition, depth int, isRoot bool) {
	var ff []flatField
	a.fragIDs = nil
	a.flatten(ss, false, "", &ff, 0)
	fragIDs := a.fragIDs
	_ = fragIDs
	// the selection below a root node(id:) field is planned by its own routine (grouped by type fragment and service):
	// "helper only inside a subtype fragment" and the interface spread classes do not describe it (nodeRoot() sets its own)
	a.nodeRootScope = a.skipAbstractOnce
	a.skipAbstractOnce = false
	a.helperFragments(ss, parent)
	a.nodeRootScope = false
	if depth >= 3 {
		a.set["op.depth>=3"] = true
	}
	onlyTypename := len(ff) > 0
	hasIntrospection, hasOrdinary := false, false
	for i, x := range ff {
		f := x.f
		a.dirs(f.Directives, false)
		a.inRootArgs = isRoot
		for _, arg := range f.Arguments {
			a.set["op.arguments"] = true
			if arg.Value != nil && arg.Value.Kind == ast.Variable {
				a.set["op.variables"] = true
			}
			a.values(arg.Value, 0)
			if f.Definition != nil && arg.Value != nil && arg.Value.Kind != ast.Variable {
				if ad := f.Definition.Arguments.ForName(arg.Name); ad != nil && ad.Type != nil {
					if d := a.schema.Types[ad.Type.Name()]; d != nil && d.Kind == ast.Scalar && !d.BuiltIn && hasVariable(arg.Value) {
						a.set["op.variableInCustomScalarLiteral"] = true
					}
				}
			}
		}
		a.inRootArgs = false
		if f.Name != "__typename" {
			onlyTypename = false
		}
		if isRoot {
			switch f.Name {
			case "__schema", "__type":
				hasIntrospection = true
			case "__typename":
			case "node":
				a.set["op.nodeRoot"] = true
				hasOrdinary = true
				a.nodeRoot(f)
			default:
				hasOrdinary = true
			}
		}
		if f.Alias != f.Name {
			a.set["op.aliases"] = true
			if f.Alias == "id" || f.Alias == "__typename" {
				a.set["op.aliasIsHelperName"] = true
			}
			if f.Alias == "node" {
				a.set["op.aliasNode"] = true // the key of the gateway's own lookups; no defect known
			}
			if f.Name == "id" {
				a.set["op.idAliased"] = true
			}
			if f.Name == "__typename" {
				a.set["op.typenameAliased"] = true
			}
		}
		if (f.Name == "id" || f.Name == "__typename") && len(f.Directives) > 0 {
			a.set["op.helperFieldConditional"] = true
		}
		if f.Name == "__typename" {
			a.set["op.typename"] = true
		}
		for j := 0; j < i; j++ {
			e := ff[j].f
			if e.Name == f.Alias && e.Alias != f.Alias {
				a.set["op.aliasEqualsSiblingName"] = true
			}
			if e.Alias == f.Alias && a.differentObjectTypes(ff[j].cond, x.cond) {
				// the same key in fragments on different object types never meets in one object: not a repeated key
				a.set["op.sameKeyInFragmentsOfDifferentTypes"] = true
				if len(f.SelectionSet) > 0 && selText(e.SelectionSet) != selText(f.SelectionSet) {
					a.set["op.sameCompositeKeyInFragmentsOfDifferentTypes"] = true
				}
				continue
			}
			if e.Alias == f.Alias {
				a.set["op.duplicateResponseKey"] = true
				if len(f.SelectionSet) > 0 && selText(e.SelectionSet) != selText(f.SelectionSet) {
					a.set["op.duplicateCompositeKey"] = true
				}
				if len(e.Directives) > 0 || len(f.Directives) > 0 || ff[j].inFrag != x.inFrag || ff[j].cond != x.cond {
					a.set["op.duplicateKeyDifferentConditions"] = true
				}
			}
		}
		if len(f.SelectionSet) > 0 && f.Definition != nil {
			def := a.schema.Types[f.Definition.Type.Name()]
			if def != nil {
				nodeRootField := isRoot && f.Name == "node" && def.Name == "Node"
				if def.Kind == ast.Interface && parent != nil && !nodeRootField {
					a.interfaceSpread(f, def, parent)
				}
				a.skipAbstractOnce = nodeRootField
				if def.Kind == ast.Interface || def.Kind == ast.Union {
					a.set["op.abstractField"] = true
				}
				if f.Definition.Type.Elem != nil {
					a.set["op.listField"] = true
					if f.Definition.Type.Elem.Elem != nil {
						a.set["op.nestedListField"] = true
					}
				}
				a.scope(f.SelectionSet, def, depth+1, false)
			}
		}
	}
	if isRoot {
		if onlyTypename {
			a.set["op.rootTypenameOnly"] = true
		}
		for _, x := range ff {
			if x.f.Name == "__typename" {
				a.set["op.rootTypename"] = true
			}
		}
		if hasIntrospection && hasOrdinary {
			a.set["op.introspectionMixedWithFields"] = true
		}
		if hasIntrospection {
			a.set["op.introspection"] = true
		}
	}
}

// nodeRoot looks at the fragments under a root node(id:) field.
func (a *analyzer) nodeRoot(f *ast.Field) {
	var ff []flatField
	a.flatten(f.SelectionSet, false, "", &ff, 0)
	byCond := map[string][]string{}
	for _, x := range ff {
		byCond[x.cond] = append(byCond[x.cond], x.f.Name)
		if len(x.f.SelectionSet) > 0 {
			a.set["op.nodeRootNestedSelection"] = true
		}
	}
	typeConds := 0
	for cond := range byCond {
		if cond != "" && cond != "Node" {
			typeConds++
		}
	}
	// a type fragment without a plain client-selected id gets a helper id; below a node root the helper __typename
	// is lost (KF-C01-21), so whether that id is scrubbed depends on map iteration order (KF-C01-35)
	plainID := map[string]bool{}
	for _, x := range ff {
		if x.f.Name == "id" && (x.f.Alias == "" || x.f.Alias == "id") && len(x.f.Directives) == 0 {
			plainID[x.cond] = true
		}
	}
	for cond := range byCond {
		if cond != "" && cond != "Node" && !plainID[cond] {
			a.set["op.nodeRootHelperId"] = true
		}
	}
	if typeConds >= 2 {
		a.set["op.nodeRootSeveralTypeFragments"] = true
	}
	for cond, names := range byCond {
		if cond == "" || cond == "Node" {
			if len(names) > 0 {
				a.set["op.nodeRootDirectField"] = true
			}
			continue
		}
		onlyHelpers := true
		hasTypename := false
		for _, n := range names {
			if n != "id" && n != "__typename" {
				onlyHelpers = false
			}
			if n == "__typename" {
				hasTypename = true
			}
		}
		if hasTypename {
			a.set["op.nodeRootFragmentTypename"] = true
		}
		if onlyHelpers {
			a.set["op.nodeRootFragmentOnlyHelpers"] = true
		}
	}
	var hasSpread func(ss ast.SelectionSet, depth int) bool
	hasSpread = func(ss ast.SelectionSet, depth int) bool {
		for _, sel := range ss {
			switch x := sel.(type) {
			case *ast.FragmentSpread:
				return true
			case *ast.InlineFragment:
				if depth < 4 && hasSpread(x.SelectionSet, depth+1) {
					return true
				}
			}
		}
		return false
	}
	if hasSpread(f.SelectionSet, 0) {
		a.set["op.nodeRootNamedFragment"] = true // directly below the node field or below its type fragments
	}
}

type fragInst struct {
	cond string
	body ast.SelectionSet
}

func containsField(ss ast.SelectionSet, name string, depth int) bool {
	if depth > 20 {
		return false
	}
	for _, sel := range ss {
		switch s := sel.(type) {
		case *ast.Field:
			if s.Name == name {
				return true
			}
		case *ast.InlineFragment:
			if containsField(s.SelectionSet, name, depth+1) {
				return true
			}
		case *ast.FragmentSpread:
			if s.Definition != nil && containsField(s.Definition.SelectionSet, name, depth+1) {
				return true
			}
		}
	}
	return false
}

func fragmentsIn(ss ast.SelectionSet, out *[]fragInst, depth int) {
	if depth > 20 {
		return
	}
	for _, sel := range ss {
		switch s := sel.(type) {
		case *ast.InlineFragment:
			*out = append(*out, fragInst{cond: s.TypeCondition, body: s.SelectionSet})
			fragmentsIn(s.SelectionSet, out, depth+1)
		case *ast.FragmentSpread:
			if s.Definition != nil {
				*out = append(*out, fragInst{cond: s.Definition.TypeCondition, body: s.Definition.SelectionSet})
				fragmentsIn(s.Definition.SelectionSet, out, depth+1)
			}
		}
	}
}

func (a *analyzer) needsHelper(helper, typeName string) bool {
	d := a.schema.Types[typeName]
	if d == nil {
		return false
	}
	abstract := d.Kind == ast.Interface || d.Kind == ast.Union
	if helper == "__typename" {
		return abstract
	}
	if abstract {
		return d.Fields.ForName("id") != nil || d.Kind == ast.Union
	}
	for _, in := range d.Interfaces {
		if in == "Node" {
			return true
		}
	}
	return false
}

// directHelper: helper selected at the top level of the scope (through fragments that do not narrow the type).
func directHelper(ss ast.SelectionSet, helper, parent string, depth int) bool {
	if depth > 20 {
		return false
	}
	for _, sel := range ss {
		switch s := sel.(type) {
		case *ast.Field:
			if s.Name == helper {
				return true
			}
		case *ast.InlineFragment:
			if (s.TypeCondition == "" || s.TypeCondition == parent) && directHelper(s.SelectionSet, helper, parent, depth+1) {
				return true
			}
		case *ast.FragmentSpread:
			if s.Definition != nil && s.Definition.TypeCondition == parent && directHelper(s.Definition.SelectionSet, helper, parent, depth+1) {
				return true
			}
		}
	}
	return false
}

// helperFragments flags the two interplays of client-selected id/__typename with fragments.
func (a *analyzer) helperFragments(ss ast.SelectionSet, parent *ast.Definition) {
	var frags []fragInst
	fragmentsIn(ss, &frags, 0)
	if len(frags) == 0 {
		return
	}
	if parent != nil && (parent.Kind == ast.Interface || parent.Kind == ast.Union) {
		for _, sel := range ss {
			var body ast.SelectionSet
			cond := "?"
			switch x := sel.(type) {
			case *ast.InlineFragment:
				body, cond = x.SelectionSet, x.TypeCondition
			case *ast.FragmentSpread:
				if x.Definition != nil {
					body, cond = x.Definition.SelectionSet, x.Definition.TypeCondition
				}
			default:
				continue
			}
			if cond == "" {
				a.set["op.abstractScopeNestedFragments"] = true
			}
			var inner []fragInst
			fragmentsIn(body, &inner, 0)
			if len(inner) > 0 {
				a.set["op.abstractScopeNestedFragments"] = true
			}
		}
	}
	for _, h := range []string{"id", "__typename"} {
		if !containsField(ss, h, 0) {
			continue
		}
		for _, f := range frags {
			if f.cond != "" && a.needsHelper(h, f.cond) && !containsField(f.body, h, 0) {
				a.set["op.helperLostToFragmentScrub"] = true
			}
		}
		if parent != nil && (parent.Kind == ast.Interface || parent.Kind == ast.Union) && !a.nodeRootScope && !directHelper(ss, h, parent.Name, 0) {
			a.set["op.helperOnlyInsideSubtypeFragment"] = true
		}
	}
}

// interfaceSpread flags an interface-typed field whose selection has a subtype fragment, no direct id,
// and fields owned by more than one service (counting the owners of the field itself).
func (a *analyzer) interfaceSpread(f *ast.Field, def, parent *ast.Definition) {
	var frags []fragInst
	fragmentsIn(f.SelectionSet, &frags, 0)
	sub := false
	for _, fr := range frags {
		if fr.cond != "" && fr.cond != def.Name {
			sub = true
		}
	}
	complex := len(frags) > 0
	var ff0 []flatField
	saved0 := a.fragIDs
	a.flatten(f.SelectionSet, false, "", &ff0, 1)
	a.fragIDs = saved0
	nested := false
	for _, x := range ff0 {
		if len(x.f.SelectionSet) > 0 {
			complex = true
			nested = true
			if x.f.Definition != nil && x.f.Definition.Type != nil {
				if d := a.schema.Types[x.f.Definition.Type.Name()]; d != nil && d.Kind == ast.Interface {
					// the inner field's child steps are created once per implementation of the outer field (KF-C01-35)
					a.set["op.interfaceBelowInterface"] = true
				}
			}
		}
	}
	if nested && a.owners == nil {
		a.set["op.interfaceNestedSelection"] = true // without owner information: conservative
	}
	subNoID := sub && !directHelper(f.SelectionSet, "id", def.Name, 0)
	if !complex && !subNoID {
		return
	}
	svcs := map[int]bool{}
	parentTypes := []string{parent.Name}
	if parent.Kind == ast.Interface || parent.Kind == ast.Union {
		parentTypes = nil
		for _, pt := range a.schema.PossibleTypes[parent.Name] {
			parentTypes = append(parentTypes, pt.Name)
		}
	}
	for _, pt := range parentTypes {
		for _, o := range a.owners[pt+"."+f.Name] {
			svcs[o] = true
		}
	}
	var ff []flatField
	saved := a.fragIDs
	a.flatten(f.SelectionSet, false, "", &ff, 1)
	a.fragIDs = saved
	for _, x := range ff {
		if x.f.Name == "id" || x.f.Name == "__typename" {
			continue
		}
		for _, pt := range a.schema.PossibleTypes[def.Name] {
			for _, o := range a.owners[pt.Name+"."+x.f.Name] {
				svcs[o] = true
			}
		}
	}
	if nested && a.owners != nil && len(svcs) <= 1 {
		// all directly selected fields live at the parent's service: the planner keeps the selection as it is and
		// never looks below it (KF-C01-29); when the fields are spread over services it plans each implementation
		a.set["op.interfaceNestedSelection"] = true
	}
	if len(svcs) > 1 {
		if subNoID {
			a.set["op.interfaceSubtypeFragmentCrossService"] = true
		}
		if complex {
			a.set["op.interfaceCrossServiceComplex"] = true
		}
	}
}

func hasVariable(v *ast.Value) bool {
	if v == nil {
		return false
	}
	if v.Kind == ast.Variable {
		return true
	}
	for _, c := range v.Children {
		if hasVariable(c.Value) {
			return true
		}
	}
	return false
}

func (a *analyzer) differentObjectTypes(c1, c2 string) bool {
	if c1 == "" || c2 == "" || c1 == c2 {
		return false
	}
	d1, d2 := a.schema.Types[c1], a.schema.Types[c2]
	return d1 != nil && d2 != nil && d1.Kind == ast.Object && d2.Kind == ast.Object
}
