// Package world holds the serialisable description of a federated set of
// services (SDL per service + the union SDL + one shared data store) and the
// rapid generator that builds such worlds mergeable by construction.
package world

import (
	"fmt"
	"sort"
	"strings"

	"github.com/vektah/gqlparser/v2"
	"github.com/vektah/gqlparser/v2/ast"
)

type Service struct {
	URL string `json:"url"`
	SDL string `json:"sdl"`
}

type Entity struct {
	Type   string                 `json:"type"`
	Fields map[string]interface{} `json:"fields"`
}

type Store struct {
	Entities map[string]*Entity     `json:"entities"`
	Roots    map[string]interface{} `json:"roots"` // "Query.field" -> stored value
	// Epoch (atomic): when not zero every leaf value except ids depends on it - "the data changed since the last request"
	Epoch int32 `json:"-"`
}

// World is self-contained: replay files carry it verbatim.
type World struct {
	Services []Service `json:"services"`
	UnionSDL string    `json:"union_sdl"`
	Store    *Store    `json:"store,omitempty"`
	Labels   []string  `json:"labels,omitempty"`
}

func (w *World) URLs() []string {
	r := make([]string, len(w.Services))
	for i, s := range w.Services {
		r[i] = s.URL
	}
	return r
}

// LoadSchema parses SDL with gqlparser (prelude included).
func LoadSchema(name, sdl string) (*ast.Schema, error) {
	s, err := gqlparser.LoadSchema(&ast.Source{Name: name, Input: sdl})
	if err != nil {
		return nil, err
	}
	return s, nil
}

func (w *World) ServiceSchemas() ([]*ast.Schema, error) {
	res := make([]*ast.Schema, len(w.Services))
	for i, s := range w.Services {
		sc, err := LoadSchema(s.URL, s.SDL)
		if err != nil {
			return nil, fmt.Errorf("service %d: %v\n%s", i, err, s.SDL)
		}
		res[i] = sc
	}
	return res, nil
}

func (w *World) UnionSchema() (*ast.Schema, error) {
	return LoadSchema("union", w.UnionSDL)
}

// ---- generator-internal model -------------------------------------------------

type Kind int

const (
	KScalar Kind = iota
	KEnum
	KNode  // object implementing Node
	KValue // plain object (no Node)
	KIface
	KUnion
	KInput
)

// TypeRef is a (possibly wrapped) reference to a named type.
type TypeRef struct {
	Name        string
	Kind        Kind
	NonNull     bool
	List        bool
	ElemNonNull bool
	Nested      bool // [[T]] (labelled class)
}

func (t TypeRef) String() string {
	s := t.Name
	if t.List {
		if t.ElemNonNull {
			s += "!"
		}
		s = "[" + s + "]"
		if t.Nested {
			s = "[" + s + "]"
		}
	}
	if t.NonNull {
		s += "!"
	}
	return s
}

func (t TypeRef) Composite() bool {
	return t.Kind == KNode || t.Kind == KValue || t.Kind == KIface || t.Kind == KUnion
}

type Arg struct {
	Name    string
	Type    TypeRef
	Default string // raw GraphQL literal, "" = none
}

type Field struct {
	Name  string
	Type  TypeRef
	Args  []Arg
	Owner int // service index owning the field; -1: every service declaring the parent (value types, interface copies)
}

type Object struct {
	Name       string
	IsNode     bool
	Fields     []*Field // without id
	Home       []int    // value types: services holding identical copies
	Implements []string // interfaces other than Node
	NoFields   bool     // an entity type with nothing but its id
}

type Iface struct {
	Name     string
	OverNode bool
	Fields   []*Field // shared fields (also copied into members)
	Members  []string
	Home     []int // value interfaces: services with copies
}

type Union struct {
	Name     string
	OverNode bool
	Members  []string
	Home     []int
}

type Enum struct {
	Name   string
	Values []string
}

type Input struct {
	Name   string
	Fields []Arg
}

type Model struct {
	NServices int
	Objects   []*Object
	Ifaces    []*Iface
	Unions    []*Union
	Enums     []*Enum
	Inputs    []*Input
	Scalars   []string
	Roots     map[string][]*Field // "Query","Mutation","Subscription"
	HasNode   []bool              // service declares node(id: ID!): Node
	Labels    map[string]bool
}

func (m *Model) Object(name string) *Object {
	for _, o := range m.Objects {
		if o.Name == name {
			return o
		}
	}
	return nil
}
func (m *Model) Iface(name string) *Iface {
	for _, o := range m.Ifaces {
		if o.Name == name {
			return o
		}
	}
	return nil
}
func (m *Model) Union(name string) *Union {
	for _, o := range m.Unions {
		if o.Name == name {
			return o
		}
	}
	return nil
}
func (m *Model) Enum(name string) *Enum {
	for _, o := range m.Enums {
		if o.Name == name {
			return o
		}
	}
	return nil
}
func (m *Model) Input(name string) *Input {
	for _, o := range m.Inputs {
		if o.Name == name {
			return o
		}
	}
	return nil
}

// ---- SDL rendering --------------------------------------------------------------

func renderArgs(args []Arg) string {
	if len(args) == 0 {
		return ""
	}
	parts := make([]string, len(args))
	for i, a := range args {
		parts[i] = a.Name + ": " + a.Type.String()
		if a.Default != "" {
			parts[i] += " = " + a.Default
		}
	}
	return "(" + strings.Join(parts, ", ") + ")"
}

func renderField(f *Field) string {
	return "  " + f.Name + renderArgs(f.Args) + ": " + f.Type.String() + "\n"
}

type sdlBuilder struct {
	nodeRef bool // the Node interface itself is referenced by a field
	m       *Model
	svc     int // -1 = union schema
	need    map[string]bool
	order   []string
}

func (b *sdlBuilder) want(name string) {
	if !b.need[name] {
		b.need[name] = true
		b.order = append(b.order, name)
	}
}

func (b *sdlBuilder) wantRef(t TypeRef) {
	if t.Name == "Node" {
		b.nodeRef = true
		return
	}
	switch t.Kind {
	case KScalar:
		for _, s := range b.m.Scalars {
			if s == t.Name {
				b.want(t.Name)
			}
		}
	default:
		b.want(t.Name)
	}
}

func (b *sdlBuilder) wantField(f *Field) {
	b.wantRef(f.Type)
	for _, a := range f.Args {
		b.wantRef(a.Type)
	}
}

func (b *sdlBuilder) ownedFields(fields []*Field) []*Field {
	if b.svc < 0 {
		return fields
	}
	var r []*Field
	for _, f := range fields {
		if f.Owner == b.svc || f.Owner == -1 {
			r = append(r, f)
		}
	}
	return r
}

func (b *sdlBuilder) rootFields(root string) ([]*Field, bool) {
	m, svc := b.m, b.svc
	fields := b.ownedFields(m.Roots[root])
	hasNodeField := root == "Query" && ((svc >= 0 && m.HasNode[svc]) || (svc < 0 && anyTrue(m.HasNode)))
	return fields, hasNodeField
}

// collect computes the closure of type names the service declares.
func (b *sdlBuilder) collect() {
	m, svc := b.m, b.svc
	for _, root := range []string{"Query", "Mutation", "Subscription"} {
		fields, _ := b.rootFields(root)
		for _, f := range fields {
			b.wantField(f)
		}
	}
	if svc < 0 {
		// the union schema declares exactly what at least one service declares
		for s2 := 0; s2 < m.NServices; s2++ {
			sb := &sdlBuilder{m: m, svc: s2, need: map[string]bool{}}
			sb.collect()
			for _, n := range sb.order {
				b.want(n)
			}
		}
		return
	}
	for _, o := range m.Objects {
		if svc < 0 {
			b.want(o.Name)
			continue
		}
		if o.IsNode {
			for _, f := range o.Fields {
				if f.Owner == svc {
					b.want(o.Name)
				}
			}
		}
	}
	for _, x := range m.Ifaces {
		if svc < 0 {
			b.want(x.Name)
			continue
		}
		if x.OverNode {
			for _, f := range x.Fields {
				if f.Owner == svc {
					b.want(x.Name)
				}
			}
		}
	}
	if svc < 0 {
		for _, x := range m.Unions {
			b.want(x.Name)
		}
		for _, x := range m.Enums {
			b.want(x.Name)
		}
		for _, x := range m.Inputs {
			b.want(x.Name)
		}
		for _, x := range m.Scalars {
			b.want(x)
		}
	}
	for i := 0; i < len(b.order); i++ {
		name := b.order[i]
		if o := m.Object(name); o != nil {
			fields := o.Fields
			if o.IsNode {
				fields = b.ownedFields(o.Fields)
			}
			for _, f := range fields {
				b.wantField(f)
			}
			if !o.IsNode {
				// value copies are identical everywhere, including the interfaces they implement
				for _, in := range o.Implements {
					b.want(in)
				}
			}
			continue
		}
		if x := m.Iface(name); x != nil {
			fields := x.Fields
			if x.OverNode {
				fields = b.ownedFields(x.Fields)
			}
			for _, f := range fields {
				b.wantField(f)
			}
			for _, mem := range x.Members {
				b.want(mem)
			}
			continue
		}
		if x := m.Union(name); x != nil {
			for _, mem := range x.Members {
				b.want(mem)
			}
			continue
		}
		if x := m.Input(name); x != nil {
			for _, a := range x.Fields {
				b.wantRef(a.Type)
			}
		}
	}
}

// Declares reports whether service svc declares the named type.
func (m *Model) Declares(svc int, name string) bool {
	b := &sdlBuilder{m: m, svc: svc, need: map[string]bool{}}
	b.collect()
	return b.need[name]
}

// RenderSDL renders service svc's schema (svc = -1: the union schema).
func (m *Model) RenderSDL(svc int) string {
	b := &sdlBuilder{m: m, svc: svc, need: map[string]bool{}}
	b.collect()
	var out strings.Builder
	usesNode := false
	for _, root := range []string{"Query", "Mutation", "Subscription"} {
		fields, hasNodeField := b.rootFields(root)
		if len(fields) == 0 && !hasNodeField {
			if root == "Query" {
				out.WriteString("type Query {\n  ping" + fmt.Sprint(maxInt(svc, 0)) + ": String\n}\n")
			}
			continue
		}
		out.WriteString("type " + root + " {\n")
		if hasNodeField {
			out.WriteString("  node(id: ID!): Node\n")
			usesNode = true
		}
		for _, f := range fields {
			out.WriteString(renderField(f))
		}
		out.WriteString("}\n")
	}
	for _, name := range b.order {
		if o := m.Object(name); o != nil {
			fields := o.Fields
			if o.IsNode {
				usesNode = true
				fields = b.ownedFields(o.Fields)
			}
			var implHere []string
			for _, in := range o.Implements {
				if b.need[in] {
					implHere = append(implHere, in)
				}
			}
			if o.IsNode {
				implHere = append(implHere, "Node")
			}
			out.WriteString("type " + o.Name)
			if len(implHere) > 0 {
				out.WriteString(" implements " + strings.Join(implHere, " & "))
			}
			out.WriteString(" {\n")
			if o.IsNode {
				out.WriteString("  id: ID!\n")
			}
			for _, f := range fields {
				out.WriteString(renderField(f))
			}
			out.WriteString("}\n")
			continue
		}
		if x := m.Iface(name); x != nil {
			fields := x.Fields
			if x.OverNode {
				fields = b.ownedFields(x.Fields)
			}
			out.WriteString("interface " + x.Name + " {\n")
			if x.OverNode {
				out.WriteString("  id: ID!\n")
			}
			for _, f := range fields {
				out.WriteString(renderField(f))
			}
			out.WriteString("}\n")
			continue
		}
		if x := m.Union(name); x != nil {
			out.WriteString("union " + x.Name + " = " + strings.Join(x.Members, " | ") + "\n")
			continue
		}
		if x := m.Enum(name); x != nil {
			out.WriteString("enum " + x.Name + " {\n")
			for _, v := range x.Values {
				out.WriteString("  " + v + "\n")
			}
			out.WriteString("}\n")
			continue
		}
		if x := m.Input(name); x != nil {
			out.WriteString("input " + x.Name + " {\n")
			for _, a := range x.Fields {
				out.WriteString("  " + a.Name + ": " + a.Type.String())
				if a.Default != "" {
					out.WriteString(" = " + a.Default)
				}
				out.WriteString("\n")
			}
			out.WriteString("}\n")
			continue
		}
		out.WriteString("scalar " + name + "\n")
	}
	if usesNode || b.nodeRef {
		out.WriteString("interface Node {\n  id: ID!\n}\n")
	}
	return out.String()
}

func anyTrue(b []bool) bool {
	for _, x := range b {
		if x {
			return true
		}
	}
	return false
}

func maxInt(a, b int) int {
	if a > b {
		return a
	}
	return b
}

func SortedKeys(m map[string]bool) []string {
	r := make([]string, 0, len(m))
	for k, v := range m {
		if v {
			r = append(r, k)
		}
	}
	sort.Strings(r)
	return r
}
