package props

import (
	"fmt"
	"sort"
	"strings"
	"testing"

	"github.com/buildbuildio/pebbles/planner"
	"github.com/vektah/gqlparser/v2/ast"
	"pgregory.net/rapid"

	"verif/harness/ev"
	"verif/harness/fake"
	"verif/harness/opgen"
	"verif/harness/world"
)

// RoundTripCase: an operation over a store whose lists are replicated Replicate times (metamorphic partner).
type RoundTripCase struct {
	ExecCase
	Replicate int `json:"replicate"`
}

func replicateStore(st *world.Store, k int) *world.Store {
	var rep func(v interface{}) interface{}
	rep = func(v interface{}) interface{} {
		switch x := v.(type) {
		case []interface{}:
			out := make([]interface{}, 0, len(x)*k)
			for i := 0; i < k; i++ {
				for _, e := range x {
					out = append(out, rep(e))
				}
			}
			return out
		case map[string]interface{}:
			m := make(map[string]interface{}, len(x))
			for kk, vv := range x {
				m[kk] = rep(vv)
			}
			return m
		}
		return v
	}
	ns := &world.Store{Entities: map[string]*world.Entity{}, Roots: map[string]interface{}{}}
	for id, e := range st.Entities {
		ne := &world.Entity{Type: e.Type, Fields: map[string]interface{}{}}
		for f, v := range e.Fields {
			ne.Fields[f] = rep(v)
		}
		ns.Entities[id] = ne
	}
	for r, v := range st.Roots {
		ns.Roots[r] = rep(v)
	}
	return ns
}

// callsPerService counts HTTP calls (one MultiOpQueryer.Query with a large batch size = one call) per service.
func callsPerService(log []*fake.Received) map[string]int {
	seen := map[string]bool{}
	res := map[string]int{}
	for _, r := range log {
		k := fmt.Sprintf("%s#%d", r.Service, r.Call)
		if !seen[k] {
			seen[k] = true
			res[r.Service]++
		}
	}
	return res
}

func depthsPerService(plan *planner.QueryPlan) map[string]int {
	levels := map[string]map[int]bool{}
	walkSteps(plan.RootSteps, 0, func(s *planner.QueryPlanStep, depth int) {
		if levels[s.URL] == nil {
			levels[s.URL] = map[int]bool{}
		}
		levels[s.URL][depth] = true
	})
	res := map[string]int{}
	for u, l := range levels {
		res[u] = len(l)
	}
	return res
}

func checkC12(c *RoundTripCase) (*ev.Failure, *execOutcome, string) {
	c.Config.MaxBatch = 1 << 30 // one Queryer.Query call = one HTTP call, however many lookups a level has
	plan, _, perr := planOf(&c.ExecCase)
	if perr != nil {
		return nil, nil, "skip:plan-error"
	}
	limit := depthsPerService(plan)
	f, out := checkC01(&c.ExecCase) // the answer still equals the reference (every duplicate position filled)
	if out != nil && out.Skip != "" {
		return nil, out, "skip:" + out.Skip
	}
	if f != nil {
		if strings.HasPrefix(f.Signature, "data-mismatch") {
			return ev.Failf("fanout:"+f.Signature, "%s", f.Message), out, ""
		}
		return nil, out, "skip:clean-run-not-clean"
	}
	base := callsPerService(out.Log)
	for url, n := range base {
		if n > limit[url] {
			return ev.Failf("calls-exceed", "service %s received %d batched calls but appears at %d plan level(s)", url, n, limit[url]), out, ""
		}
	}
	// within one batched call, identical lookups (same query text, variables = {id} only) are sent once
	byCall := map[string][]*fake.Received{}
	for _, r := range out.Log {
		k := fmt.Sprintf("%s#%d", r.Service, r.Call)
		byCall[k] = append(byCall[k], r)
	}
	for k, rs := range byCall {
		seen := map[string]bool{}
		for _, r := range rs {
			if len(r.Variables) != 1 {
				continue
			}
			id, ok := r.Variables["id"]
			if !ok {
				continue
			}
			key := fmt.Sprintf("%v\x00%s", id, r.Query)
			if seen[key] {
				return ev.Failf("duplicate-lookup", "call %s carries the lookup of entity %v with the same sub-query twice:\n%s", k, id, r.Query), out, ""
			}
			seen[key] = true
		}
	}
	if c.Replicate > 1 {
		big := &RoundTripCase{ExecCase: c.ExecCase}
		w2 := *c.World
		w2.Store = replicateStore(c.World.Store, c.Replicate)
		big.World = &w2
		f2, out2 := checkC01(&big.ExecCase)
		if out2 != nil && out2.Skip != "" {
			return nil, out, "skip:replica-" + out2.Skip
		}
		if f2 != nil {
			if strings.HasPrefix(f2.Signature, "data-mismatch") {
				return ev.Failf("fanout:"+f2.Signature, "with every list replicated x%d: %s", c.Replicate, f2.Message), out, ""
			}
			return nil, out, "skip:replica-not-clean"
		}
		bigCalls := callsPerService(out2.Log)
		urls := map[string]bool{}
		for u := range base {
			urls[u] = true
		}
		for u := range bigCalls {
			urls[u] = true
		}
		var us []string
		for u := range urls {
			us = append(us, u)
		}
		sort.Strings(us)
		for _, u := range us {
			// an empty list replicated stays empty, so the set of firing steps is unchanged: counts must be equal
			if base[u] != bigCalls[u] {
				return ev.Failf("calls-depend-on-size", "service %s received %d batched calls, but %d when every list is replicated x%d", u, base[u], bigCalls[u], c.Replicate), out, ""
			}
		}
	}
	return nil, out, ""
}

func TestC12(t *testing.T) {
	rec := ev.Get("C12")
	rec.Rule = "world x operation x store whose list lengths are drawn from {0,1,2,5,20} with repeated entities, one directed case per run with 2049..6000 entries over 2..9 entities in one level (TestC12Huge), plus the metamorphic partner in which every stored list is replicated x2..x6; oracle: per service the number of batched HTTP calls <= number of plan levels at which the service appears (plan from the real planner), identical for the replicated store, no two identical (entity, sub-query) lookups inside one batched call, and the answer still equals the reference (fan-out into every duplicate position); non-trivial = a child step fires below a list that holds a repeated entity; distinct by hash(case)"
	defer census.dump("C12")
	rapid.Check(t, func(t *rapid.T) {
		storeOverride = func(o *world.StoreOptions) {
			o.MaxList = rapid.SampledFrom([]int{1, 2, 5, 20}).Draw(t, "maxlist")
			o.MaxEntities = rapid.IntRange(1, 3).Draw(t, "maxent")
		}
		// result size grows with (list length)^depth: keep the product bounded, the statement is about round trips
		opOverride = func(o *opgen.Options) { o.MaxDepth = 3 }
		defer func() { storeOverride = nil; opOverride = nil }()
		base, _ := genExecCase(t, rec, ast.Query)
		if base == nil {
			return
		}
		base.Config.Planner = ""
		fs := caseFeatures(base)
		if g := closedGateIn(fs); g != "" {
			rec.Exclude(g)
			return
		}
		c := &RoundTripCase{ExecCase: *base, Replicate: rapid.IntRange(1, 6).Draw(t, "replicate")}
		ev.Current("C12", c)
		f, out, skip := checkC12(c)
		if skip != "" {
			rec.Class(strings.SplitN(skip, ":", 3)[0]+":"+strings.SplitN(skip+":", ":", 3)[1], 1)
			return
		}
		calls := recordCalls(out.Log)
		child := false
		for _, cr := range calls {
			if cr.IsChild {
				child = true
			}
		}
		nt := child && out.RefRes != nil && out.RefRes.DupInList > 0
		labels := []string{fmt.Sprintf("replicate=%d", c.Replicate), fmt.Sprintf("calls=%d", minInt(len(calls), 6))}
		if child {
			labels = append(labels, "childStep")
		}
		if out.RefRes != nil && out.RefRes.DupInList > 0 {
			labels = append(labels, "dupEntityInList")
		}
		rec.Case(ev.Hash(c), nt, labels...)
		rec.Sample(nt, func() interface{} {
			return map[string]interface{}{"query": c.Op.Query, "replicate": c.Replicate, "calls_per_service": callsPerService(out.Log), "requests_received": len(out.Log)}
		})
		if f != nil {
			if isCensus() {
				census.add(f.Signature, c.Op.Query+" ## "+trunc(f.Message, 300))
				return
			}
			ev.WriteFail("C12", c, f)
			t.Fatalf("%v", f)
		}
	})
}

func init() {
	replayers["C12"] = func(path string) (*ev.Failure, error) {
		var c RoundTripCase
		if _, _, err := ev.LoadCase(path, &c); err != nil {
			return nil, err
		}
		f, _, skip := checkC12(&c)
		if f == nil && skip != "" {
			return nil, fmt.Errorf("replay case outside the domain: %s", skip)
		}
		return f, nil
	}
}

// TestC12Huge: one level with thousands of list entries over a handful of entities - still one batched call per
// service and level, every entity looked up once.
func TestC12Huge(t *testing.T) {
	rec := ev.Get("C12")
	rapid.Check(t, func(t *rapid.T) {
		n := rapid.IntRange(2049, 6000).Draw(t, "entries")
		k := rapid.IntRange(2, 9).Draw(t, "entities")
		w := teardownWorld()
		list := make([]interface{}, n)
		for i := 0; i < k; i++ {
			w.Store.Entities[fmt.Sprintf("Human_%d", i+1)] = &world.Entity{Type: "Human", Fields: map[string]interface{}{"name": fmt.Sprintf("n%d", i), "phone": fmt.Sprintf("p%d", i)}}
		}
		for i := range list {
			list[i] = fmt.Sprintf("Human_%d", 1+(i*7+i/3)%k)
		}
		w.Store.Roots["Query.getHumans"] = list
		c := &RoundTripCase{ExecCase: ExecCase{World: w, Op: opgen.Op{Query: "{ getHumans { name phone } }"}}, Replicate: 1}
		ev.Current("C12", c)
		f, _, class := checkC12(c)
		if strings.HasPrefix(class, "skip:") {
			t.Fatalf("the directed case is outside the domain: %s", class)
		}
		rec.Case(ev.Hash(n, k), true, "hugeLevel")
		if f != nil {
			ev.WriteFail("C12", c, f)
			t.Fatalf("%v", f)
		}
	})
}
