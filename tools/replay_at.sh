#!/bin/bash
# usage: tools/replay_at.sh <repo commit> <property id> <case file>...   - replays case files against a scratch worktree of /repo at that commit
# (development aid: shows that a regress/ case fails before its fix); the scratch copies live under /dev/shm and are removed afterwards
set -e
commit=$1; pid=$2; shift 2
export GOFLAGS=-mod=mod GOPROXY=off GOSUMDB=off GOTOOLCHAIN=local
S=/dev/shm/replay_at.$$; mkdir -p $S
git -C /repo worktree add -q --detach $S/repo $commit
# hook package may be missing before the hook commits: take it from HEAD
[ -d $S/repo/verifhook ] || cp -r /repo/verifhook $S/repo/
cp -r /verif/harness $S/harness
sed -i "s#=> /repo#=> $S/repo#" $S/harness/go.mod
# the harness reads QueryPlanStep.VariableDefaults (C02); older commits do not have it
grep -q VariableDefaults $S/repo/planner/plan.go || sed -i 's/_, asValue := s.VariableDefaults\[vd.Variable\]/asValue := false/' $S/harness/props/c02_test.go
( cd $S/harness/props && go test -c -tags verif -o $S/props.test . ) || { echo BUILD-FAILED; git -C /repo worktree remove --force $S/repo; rm -rf $S; exit 2; }
for f in "$@"; do
  abs=$(readlink -f $f)
  mkdir -p $S/out; rm -f $S/out/*.json
  ( cd $S/harness/props && VERIF_OUT=$S/out VERIF_REPLAY=$abs VERIF_REPLAY_PROP=$pid VERIF_GATES= VERIF_TIER=quick $S/props.test -test.run '^TestReplay$' -test.timeout 120s > $S/out/log.txt 2>&1 ) || true
  if [ -f $S/out/replay-result.json ]; then echo "$f @ $commit: $(jq -c '{failed,signature}' $S/out/replay-result.json)"; else echo "$f @ $commit: no result: $(grep -m1 -E '^(panic|fatal error)' $S/out/log.txt)"; fi
done
[ -n "$KEEP" ] || { git -C /repo worktree remove --force $S/repo; rm -rf $S; }
