package props

import (
	"os"
	"strconv"
	"testing"

	"verif/harness/ev"
)

func TestMain(m *testing.M) {
	code := m.Run()
	ev.Flush()
	os.Exit(code)
}

// replayers maps property id -> function running the oracle on a replay file.
var replayers = map[string]func(path string) (*ev.Failure, error){}

// TestReplay runs the oracle of the property named in $VERIF_REPLAY's file on that file, without rapid.
func TestReplay(t *testing.T) {
	path := os.Getenv("VERIF_REPLAY")
	if path == "" {
		t.Skip("VERIF_REPLAY not set")
	}
	prop, _, err := ev.LoadCase(path, nil)
	if err != nil {
		t.Fatalf("cannot load replay %s: %v", path, err)
	}
	if p := os.Getenv("VERIF_REPLAY_PROP"); p != "" {
		prop = p
	}
	fn := replayers[prop]
	if fn == nil {
		t.Fatalf("no replayer for property %q", prop)
	}
	f, err := fn(path)
	if err != nil {
		t.Fatalf("replay error: %v", err)
	}
	// a finding whose failure depends on map iteration order is replayed until it shows (bounded)
	if n, _ := strconv.Atoi(os.Getenv("VERIF_REPLAY_REPEAT")); n > 1 {
		for i := 1; i < n && f == nil && err == nil; i++ {
			f, err = fn(path)
		}
	}
	res := ev.ReplayResult{Property: prop}
	if f != nil {
		res.Failed = true
		res.Signature = f.Signature
		res.Message = f.Message
	}
	ev.WriteReplayResult(res)
	if f != nil {
		t.Logf("REPLAY-FAILED %s: %s", f.Signature, f.Message)
	}
}
