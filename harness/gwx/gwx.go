// Package gwx builds a real pebbles.Gateway over a world with fake services
// and drives it through its HTTP handler.
package gwx

import (
	"bytes"
	"context"
	"encoding/json"
	"fmt"
	"net/http"
	"net/http/httptest"
	"runtime/debug"
	"strings"
	"time"

	"github.com/buildbuildio/pebbles"
	"github.com/buildbuildio/pebbles/merger"
	"github.com/buildbuildio/pebbles/planner"
	"github.com/buildbuildio/pebbles/queryer"
	"github.com/vektah/gqlparser/v2/ast"

	"verif/harness/fake"
	"verif/harness/world"
)

type Config struct {
	Merger   string `json:"merger,omitempty"`  // "extend" (default) | "sanitize"
	Planner  string `json:"planner,omitempty"` // "sequential" (default) | "cached"
	TTLNs    int64  `json:"ttl_ns,omitempty"`
	IDHint   bool   `json:"id_hint,omitempty"`
	MaxBatch int    `json:"max_batch,omitempty"` // default 3000
	Order    []int  `json:"order,omitempty"`     // permutation of services
}

// DirectIntrospector hands the services' schemas to the gateway without the introspection round trip.
type DirectIntrospector struct{ W *world.World }

func (d DirectIntrospector) IntrospectRemoteSchemas(urls ...string) ([]*ast.Schema, error) {
	res := make([]*ast.Schema, len(urls))
	for i, u := range urls {
		found := false
		for _, s := range d.W.Services {
			if s.URL == u {
				sc, err := world.LoadSchema(u, s.SDL)
				if err != nil {
					return nil, err
				}
				res[i] = sc
				found = true
			}
		}
		if !found {
			return nil, fmt.Errorf("no such service %s", u)
		}
	}
	return res, nil
}

func OrderedURLs(w *world.World, order []int) []string {
	urls := w.URLs()
	if len(order) != len(urls) {
		return urls
	}
	res := make([]string, len(urls))
	for i, o := range order {
		res[i] = urls[o]
	}
	return res
}

func IDHint(id interface{}) (string, bool) {
	s, ok := id.(string)
	if !ok {
		return "", false
	}
	i := strings.LastIndex(s, "_")
	if i <= 0 {
		return "", false
	}
	return s[:i], true
}

// Build creates the gateway. A merge failure is returned as error.
func Build(w *world.World, net *fake.Net, cfg Config) (gw *pebbles.Gateway, err error) {
	return BuildWithFactory(w, net, cfg, nil)
}

// BuildWithFactory is Build with a caller-supplied queryer factory (scripted subscriptions).
func BuildWithFactory(w *world.World, net *fake.Net, cfg Config, factory pebbles.QueryerFactory) (gw *pebbles.Gateway, err error) {
	defer func() {
		if r := recover(); r != nil {
			err = fmt.Errorf("PANIC in NewGateway: %v\n%s", r, debug.Stack())
		}
	}()
	maxBatch := cfg.MaxBatch
	if maxBatch <= 0 {
		maxBatch = 3000
	}
	client := &http.Client{Transport: net}
	if factory == nil {
		factory = func(ctx *planner.PlanningContext, url string) queryer.Queryer {
			q := queryer.NewMultiOpQueryer(url, maxBatch).WithHTTPClient(client)
			// like the gateway's default factory: downstream requests live as long as the client's request
			if ctx != nil && ctx.Request != nil && ctx.Request.Original != nil {
				q = q.WithContext(ctx.Request.Original.Context())
			}
			return q
		}
	}
	opts := []pebbles.GatewayOption{
		pebbles.WithRemoteSchemaIntrospector(DirectIntrospector{W: w}),
		pebbles.WithQueryerFactory(factory),
	}
	if cfg.Merger == "sanitize" {
		var m merger.SanitizeNodeMergerFunc
		opts = append(opts, pebbles.WithMerger(m))
	}
	if cfg.Planner == "cached" {
		opts = append(opts, pebbles.WithPlanner(planner.NewCachedPlanner(time.Duration(cfg.TTLNs))))
	}
	if cfg.IDHint {
		opts = append(opts, pebbles.WithGetParentTypeFromIDFunc(IDHint))
	}
	return pebbles.NewGateway(OrderedURLs(w, cfg.Order), opts...)
}

type Response struct {
	Status   int
	Body     []byte
	Panic    string
	TimedOut bool
}

// Post sends a body through gw.Handler; panics in the calling goroutine are recovered and reported.
func Post(gw *pebbles.Gateway, body []byte, contentType string, timeout time.Duration) *Response {
	return PostCtx(context.Background(), gw, body, contentType, timeout)
}

// PostCtx is Post with the context of the client's request (a client that gave up, a deadline set in front of the gateway).
func PostCtx(ctx context.Context, gw *pebbles.Gateway, body []byte, contentType string, timeout time.Duration) *Response {
	done := make(chan *Response, 1)
	go func() {
		res := &Response{}
		defer func() {
			if r := recover(); r != nil {
				res.Panic = fmt.Sprintf("%v\n%s", r, debug.Stack())
			}
			done <- res
		}()
		req := httptest.NewRequest("POST", "/graphql", bytes.NewReader(body)).WithContext(ctx)
		if contentType != "" {
			req.Header.Set("Content-Type", contentType)
		}
		rec := httptest.NewRecorder()
		gw.Handler(rec, req)
		res.Status = rec.Code
		res.Body = rec.Body.Bytes()
	}()
	select {
	case r := <-done:
		return r
	case <-time.After(timeout):
		return &Response{TimedOut: true}
	}
}

type GQLRequest struct {
	Query         string                 `json:"query"`
	Variables     map[string]interface{} `json:"variables,omitempty"`
	OperationName *string                `json:"operationName,omitempty"`
}

// UnmarshalJSON keeps integer literals float64 cannot hold (more than 15 digits) as json.Number, so that a case file
// replays the request text it was written from; every other number becomes float64 as usual.
func (r *GQLRequest) UnmarshalJSON(b []byte) error {
	var p struct {
		Query         string          `json:"query"`
		Variables     json.RawMessage `json:"variables"`
		OperationName *string         `json:"operationName"`
	}
	if err := json.Unmarshal(b, &p); err != nil {
		return err
	}
	r.Query, r.OperationName, r.Variables = p.Query, p.OperationName, nil
	if len(p.Variables) == 0 || string(p.Variables) == "null" {
		return nil
	}
	dec := json.NewDecoder(bytes.NewReader(p.Variables))
	dec.UseNumber()
	var v map[string]interface{}
	if err := dec.Decode(&v); err != nil {
		return err
	}
	r.Variables, _ = plainNumbers(v).(map[string]interface{})
	return nil
}

func plainNumbers(v interface{}) interface{} {
	switch x := v.(type) {
	case map[string]interface{}:
		for k, vv := range x {
			x[k] = plainNumbers(vv)
		}
		return x
	case []interface{}:
		for i, vv := range x {
			x[i] = plainNumbers(vv)
		}
		return x
	case json.Number:
		s := strings.TrimPrefix(x.String(), "-")
		if len(s) > 15 && !strings.ContainsAny(s, ".eE") {
			return x
		}
		f, err := x.Float64()
		if err != nil {
			return x
		}
		return f
	}
	return v
}

func PostOp(gw *pebbles.Gateway, r GQLRequest, timeout time.Duration) *Response {
	b, _ := json.Marshal(r)
	return Post(gw, b, "application/json", timeout)
}

type GQLResponse struct {
	Data   map[string]interface{}   `json:"data"`
	Errors []map[string]interface{} `json:"errors"`
}

func Decode(body []byte) (*GQLResponse, error) {
	var r GQLResponse
	dec := json.NewDecoder(bytes.NewReader(body))
	if err := dec.Decode(&r); err != nil {
		return nil, err
	}
	return &r, nil
}

// PanicSite returns the first pebbles function on a recovered stack (stable part of a panic signature).
func PanicSite(stack string) string {
	for _, line := range strings.Split(stack, "\n") {
		if i := strings.Index(line, "github.com/buildbuildio/pebbles"); i >= 0 && !strings.HasPrefix(strings.TrimSpace(line), "/") {
			fn := line[i+len("github.com/buildbuildio/pebbles"):]
			if j := strings.Index(fn, "("); j > 0 {
				// keep receiver types like (*T).Method
				if k := strings.LastIndex(fn, "("); k > 0 && strings.HasSuffix(fn[:k], ")") == false {
					fn = fn[:k]
				}
			}
			fn = strings.TrimPrefix(fn, "/")
			fn = strings.TrimPrefix(fn, ".")
			return strings.TrimSpace(fn)
		}
	}
	return "unknown"
}
