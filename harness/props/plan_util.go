package props

import (
	"encoding/json"
	"fmt"
	"strings"

	"github.com/buildbuildio/pebbles/planner"
	"github.com/buildbuildio/pebbles/requests"
	"github.com/vektah/gqlparser/v2"

	"verif/harness/refexec"
)

// planOf runs the real SequentialPlanner on the case's operation against the real merge result.
func planOf(c *ExecCase) (*planner.QueryPlan, *planner.PlanningContext, error) {
	res, err, pan := runMerge(c.World, c.Config.Order, c.Config.Merger)
	if pan != "" {
		return nil, nil, fmt.Errorf("merge panic: %s", pan)
	}
	if err != nil {
		return nil, nil, err
	}
	doc, errs := gqlparser.LoadQuery(res.Schema, c.Op.Query)
	if errs != nil {
		return nil, nil, fmt.Errorf("invalid against merged schema: %v", errs)
	}
	op, err := refexec.PickOperation(doc, c.Op.OperationName)
	if err != nil {
		return nil, nil, err
	}
	ctx := &planner.PlanningContext{
		Operation:  op,
		Request:    &requests.Request{Query: c.Op.Query, Variables: c.Op.Variables, OperationName: c.Op.OperationName},
		Schema:     res.Schema,
		TypeURLMap: res.TypeURLMap,
	}
	var sp planner.SequentialPlanner
	plan, err := sp.Plan(ctx)
	return plan, ctx, err
}

func planFor(c *ExecCase) (string, error) {
	plan, _, err := planOf(c)
	if err != nil {
		return "", err
	}
	var b strings.Builder
	var walk func(steps []*planner.QueryPlanStep, ind string)
	walk = func(steps []*planner.QueryPlanStep, ind string) {
		for _, s := range steps {
			fmt.Fprintf(&b, "%sSTEP url=%s parent=%s ip=%v vars=%v\n%s  %s\n", ind, s.URL, s.ParentType, s.InsertionPoint, s.VariablesList, ind, strings.ReplaceAll(s.QueryString, "\n", " "))
			walk(s.Then, ind+"    ")
		}
	}
	walk(plan.RootSteps, "")
	sf, _ := json.Marshal(plan.ScrubFields)
	fmt.Fprintf(&b, "SCRUB %s\n", sf)
	return b.String(), nil
}

func maxInt(a, b int) int {
	if a > b {
		return a
	}
	return b
}
