#!/bin/bash
# usage: eval_seed.sh <seed dir> <property ids to run...>
# 1. confirms the seeded change in a scratch worktree (applies, builds, existing tests pass, demo fails with / passes without)
# 2. applies it to /repo, runs the given checks (quick), reverts /repo
export GOFLAGS=-mod=mod GOPROXY=off GOSUMDB=off GOTOOLCHAIN=local
SD=$1; shift
NAME=$(basename $SD)
WT=/tmp/ver/$NAME
rm -rf $WT; git -C /repo worktree prune; git -C /repo worktree add -q --detach $WT HEAD || exit 2
cd $WT
git apply $SD/patch.diff || { echo "CONFIRM: patch does not apply"; exit 2; }
go build ./... || { echo "CONFIRM: does not build"; exit 2; }
if go test -vet=off -count=1 ./... > /tmp/ver/$NAME.suite.log 2>&1; then echo "CONFIRM: existing suite passes with the change"; else echo "CONFIRM: EXISTING SUITE FAILS"; tail -5 /tmp/ver/$NAME.suite.log; fi
# demo: copy test files to the same relative place as in the seeder's worktree
for f in $(cd /tmp/wt/$NAME 2>/dev/null && git status --short | grep '^??' | awk '{print $2}' | grep '_test.go$'); do mkdir -p $(dirname $f); cp /tmp/wt/$NAME/$f $f; echo "demo file: $f"; done
DEMO=$(cat $SD/demo_cmd.txt | grep "go test" | head -1 | sed "s#/tmp/wt/$NAME#$WT#g")
echo "demo cmd: $DEMO"
( eval "$DEMO" ) > /tmp/ver/$NAME.demo_with.log 2>&1; echo "CONFIRM: demo with change exit=$? (expect non-zero)"
git apply -R $SD/patch.diff
( eval "$DEMO" ) > /tmp/ver/$NAME.demo_without.log 2>&1; echo "CONFIRM: demo without change exit=$? (expect 0)"
cd /verif
git -C /repo worktree remove --force $WT
# run the checks against the change
git -C /repo apply $SD/patch.diff || { echo "cannot apply to /repo"; exit 2; }
for id in "$@"; do
  out=$(./check $id --tier quick 2>&1); code=$?
  echo "CHECK $id exit=$code :: $(echo "$out" | grep -E 'VIOLATION|quick:' | head -2 | tr '\n' ' ')"
  echo "$out" | grep -B1 "VIOLATION" | grep -v VIOLATION | head -2
done
git -C /repo checkout -- .
git -C /repo status --short
