package props

import (
	"fmt"
	"os"
	"testing"

	"github.com/vektah/gqlparser/v2"
	"github.com/vektah/gqlparser/v2/ast"
	"pgregory.net/rapid"

	"verif/harness/ev"
)

func TestDbgInvalidOps(t *testing.T) {
	if os.Getenv("VERIF_DUMP") == "" {
		t.Skip()
	}
	counts := map[string]int{}
	shown := 0
	rapid.Check(t, func(t *rapid.T) {
		c, _ := genExecCase(t, ev.Get("X"), ast.Query)
		if c == nil {
			return
		}
		union, _ := c.World.UnionSchema()
		_, errs := gqlparser.LoadQuery(union, c.Op.Query)
		if errs != nil {
			counts[errs[0].Rule]++
			if shown < 8 {
				shown++
				fmt.Println("INVALID:", errs[0].Rule, errs[0].Message, "\n   ", c.Op.Query)
			}
		} else {
			counts["ok"]++
		}
	})
	fmt.Println(counts)
}

func TestDbgPlan(t *testing.T) {
	path := os.Getenv("VERIF_PLAN")
	if path == "" {
		t.Skip()
	}
	var c ExecCase
	if _, _, err := ev.LoadCase(path, &c); err != nil {
		t.Fatal(err)
	}
	steps, err := planFor(&c)
	if err != nil {
		t.Fatal(err)
	}
	fmt.Println(steps)
}

func TestDbgFeatures(t *testing.T) {
	path := os.Getenv("VERIF_PLAN")
	if path == "" {
		t.Skip()
	}
	var c ExecCase
	if _, _, err := ev.LoadCase(path, &c); err != nil {
		t.Fatal(err)
	}
	fmt.Println(caseFeatures(&c).List())
}

// TestDbgAvoidLeaks prints generated operations that carry a feature class the generator was told to avoid (VERIF_DUMP=<class>).
func TestDbgAvoidLeaks(t *testing.T) {
	cls := os.Getenv("VERIF_DUMP")
	if cls == "" {
		t.Skip()
	}
	n := 0
	rapid.Check(t, func(t *rapid.T) {
		c, _ := genExecCase(t, ev.Get("DBG"), ast.Query)
		if c == nil || n >= 6 {
			return
		}
		if caseFeatures(c)[cls] {
			n++
			fmt.Println("LEAK:", c.Op.Query)
		}
	})
}
