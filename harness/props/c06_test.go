package props

import (
	"fmt"
	"strings"
	"testing"
	"time"

	"github.com/vektah/gqlparser/v2"
	"github.com/vektah/gqlparser/v2/ast"
	"pgregory.net/rapid"

	"verif/harness/ev"
	"verif/harness/fake"
	"verif/harness/gwx"
	"verif/harness/refexec"
)

// MutCase: a mutation operation, sent Repeat times to one gateway, optionally with a failing downstream call.
type MutCase struct {
	ExecCase
	Repeat int     `json:"repeat"`
	Faults []Fault `json:"faults,omitempty"`
}

type rootSel struct{ key, name string }

func clientRootFields(op *ast.OperationDefinition) []rootSel {
	var res []rootSel
	var walk func(ss ast.SelectionSet)
	seen := map[string]bool{}
	walk = func(ss ast.SelectionSet) {
		for _, s := range ss {
			switch x := s.(type) {
			case *ast.Field:
				if x.Name == "__typename" || seen[x.Alias] {
					continue
				}
				seen[x.Alias] = true
				res = append(res, rootSel{x.Alias, x.Name})
			case *ast.InlineFragment:
				walk(x.SelectionSet)
			case *ast.FragmentSpread:
				if x.Definition != nil {
					walk(x.Definition.SelectionSet)
				}
			}
		}
	}
	walk(op.SelectionSet)
	return res
}

func checkC06(c *MutCase) (*ev.Failure, string) {
	union, err := c.World.UnionSchema()
	if err != nil {
		return ev.Failf("harness", "%v", err), ""
	}
	doc, verrs := gqlparser.LoadQuery(union, c.Op.Query)
	if verrs != nil {
		return nil, "skip:op-invalid"
	}
	op, perr := refexec.PickOperation(doc, c.Op.OperationName)
	if perr != nil || op.Operation != ast.Mutation {
		return nil, "skip:not-a-mutation"
	}
	roots := clientRootFields(op)
	owners := ownersOf(c.World)
	net, err := fake.NewNet(c.World)
	if err != nil {
		return ev.Failf("harness", "%v", err), ""
	}
	gw, err := gwx.Build(c.World, net, c.Config)
	if err != nil {
		return ev.Failf("harness", "world does not merge: %v", err), ""
	}
	schemas, _ := c.World.ServiceSchemas()
	svcIndex := map[string]int{}
	for i, s := range c.World.Services {
		svcIndex[s.URL] = i
	}
	class := "plain"
	for rep := 0; rep < maxInt(c.Repeat, 1); rep++ {
		net.Reset()
		hit := 0
		var hitKinds []string
		if len(c.Faults) > 0 {
			installFaults(net, c.Faults, &hit, &hitKinds)
		} else {
			net.Fault = nil
		}
		resp := gwx.PostOp(gw, gwx.GQLRequest{Query: c.Op.Query, Variables: c.Op.Variables, OperationName: c.Op.OperationName}, 10*time.Second)
		if resp.TimedOut {
			return ev.Failf("hang", "no response"), ""
		}
		if resp.Panic != "" {
			return ev.Failf("panic:"+gwx.PanicSite(resp.Panic), "%s", trunc(resp.Panic, 800)), ""
		}
		if hit > 0 {
			class = "withFault"
		}
		count := map[rootSel]int{}
		where := map[rootSel]string{}
		for _, r := range net.Snapshot() {
			sdoc, errs := gqlparser.LoadQuery(schemas[svcIndex[r.Service]], r.Query)
			if errs != nil {
				return nil, "skip:subrequest-invalid" // C02's business
			}
			sop, err := refexec.PickOperation(sdoc, r.OperationName)
			if err != nil {
				return nil, "skip:subrequest-invalid"
			}
			if sop.Operation == ast.Mutation {
				for _, rf := range clientRootFields(sop) {
					found := false
					for _, cr := range roots {
						if cr == rf {
							found = true
						}
					}
					if !found {
						return ev.Failf("invented-mutation", "service %s received mutation field %s: %s which the client did not select", r.Service, rf.key, rf.name), ""
					}
					count[rf]++
					where[rf] = r.Service
				}
			} else {
				// follow-up lookups are queries; they must not contain mutation root fields
				for _, rf := range clientRootFields(sop) {
					if union.Mutation != nil && union.Mutation.Fields.ForName(rf.name) != nil && union.Query.Fields.ForName(rf.name) == nil {
						return ev.Failf("child-not-query", "mutation field %s sent inside a %s", rf.name, sop.Operation), ""
					}
				}
			}
		}
		for _, cr := range roots {
			os := owners["Mutation."+cr.name]
			if len(os) != 1 {
				continue
			}
			ownerURL := c.World.Services[os[0]].URL
			if count[cr] == 0 {
				// a root field that is skipped by a directive is legitimately not sent
				if rootFieldSkipped(op, cr.key, c.Op.Variables) {
					continue
				}
				return ev.Failf("mutation-count:0", "mutation root field %s: %s was sent to no service (request %d)", cr.key, cr.name, rep), ""
			}
			if count[cr] > 1 {
				return ev.Failf("mutation-count:>1", "mutation root field %s: %s was sent %d times within one client request (request %d)", cr.key, cr.name, count[cr], rep), ""
			}
			if where[cr] != ownerURL {
				return ev.Failf("wrong-service", "mutation root field %s was sent to %s, owner is %s", cr.name, where[cr], ownerURL), ""
			}
		}
	}
	if c.Repeat > 1 {
		class += ",repeated"
	}
	return nil, class
}

func rootFieldSkipped(op *ast.OperationDefinition, key string, vars map[string]interface{}) bool {
	for _, s := range op.SelectionSet {
		if f, ok := s.(*ast.Field); ok && f.Alias == key {
			for _, d := range f.Directives {
				if d.Name == "skip" || d.Name == "include" {
					return true // conservative: any condition on the root field
				}
			}
			return false
		}
	}
	return true // inside fragments: conservative
}

func TestC06(t *testing.T) {
	rec := ev.Get("C06")
	rec.Rule = "worlds with Mutation fields x generated mutation operations (1..3 root fields, children crossing services) x configuration (plain/cached planner, the same mutation sent 1..3 times, max batch size 1/2/3000, id hint) x fault (none, or a drawn sibling or child call failing: transport error, 500, errors without data, one error object for the whole batch, 3xx with an answer); plus TestC06RealHTTP: a fixed world behind loopback HTTP servers and the real net/http transport, 0..3 warm-up queries, the owning service dropping the connection after it has read the mutation (deliveries counted at the server); oracle over the fakes' logs per client request: every selected mutation root field is received exactly once, as a mutation, by its owning service only, and every other request is a query; non-trivial = the clean run makes >=2 downstream calls; distinct by hash(case)"
	defer census.dump("C06")
	rapid.Check(t, func(t *rapid.T) {
		base, _ := genExecCase(t, rec, ast.Mutation)
		if base == nil || !strings.HasPrefix(strings.TrimSpace(base.Op.Query), "mutation") {
			rec.Class("skip:no-mutation-in-world", 1)
			return
		}
		fs := caseFeatures(base)
		if g := closedGateIn(fs); g != "" {
			rec.Exclude(g)
			return
		}
		base.Config.MaxBatch = rapid.SampledFrom([]int{1, 2, 3000}).Draw(t, "maxbatch")
		c := &MutCase{ExecCase: *base, Repeat: rapid.IntRange(1, 3).Draw(t, "repeat")}
		ev.Current("C06", c)
		f0, out := checkC01(base)
		if out == nil || out.Skip != "" {
			rec.Class("skip:outside-domain", 1)
			return
		}
		var calls []callRecord
		if f0 == nil {
			calls = recordCalls(out.Log)
		} else {
			// the answer is already wrong (C01's business): no fault is derived from the run, but every mutation
			// field must still have reached its service exactly once
			rec.Class("clean-run-not-clean", 1)
		}
		if len(calls) >= 2 && rapid.IntRange(0, 1).Draw(t, "fault") == 0 {
			cr := calls[rapid.IntRange(0, len(calls)-1).Draw(t, "faultcall")]
			c.Faults = []Fault{{URL: cr.URL, Query: cr.Query, Occurrence: cr.Occurrence, Kind: rapid.SampledFrom([]string{"transport", "status500", "errors-no-data", "single-object-errors", "single-object-errors-400", "status300-answer"}).Draw(t, "fkind")}}
		}
		f, class := checkC06(c)
		if strings.HasPrefix(class, "skip:") {
			rec.Class(class, 1)
			return
		}
		nt := len(calls) >= 2
		services := map[string]bool{}
		for _, cr := range calls {
			services[cr.URL] = true
		}
		labels := []string{class, "planner=" + c.Config.Planner, fmt.Sprintf("maxbatch=%d", c.Config.MaxBatch), fmt.Sprintf("services=%d", len(services))}
		if out.RefRes != nil && out.RefRes.DupInList > 0 {
			labels = append(labels, "dupEntityInList")
		}
		rec.Case(ev.Hash(c), nt, labels...)
		rec.Sample(nt, func() interface{} {
			return map[string]interface{}{"query": c.Op.Query, "repeat": c.Repeat, "faults": c.Faults, "config": c.Config, "downstream_calls": len(calls)}
		})
		if f != nil {
			if isCensus() {
				census.add(f.Signature, c.Op.Query+" ## "+trunc(f.Message, 300))
				return
			}
			ev.WriteFail("C06", c, f)
			t.Fatalf("%v", f)
		}
	})
}

func init() {
	replayers["C06"] = func(path string) (*ev.Failure, error) {
		var rc RealHTTPCase
		if _, _, err := ev.LoadCase(path, &rc); err == nil && rc.RealHTTP {
			return checkC06Real(&rc), nil
		}
		var c MutCase
		if _, _, err := ev.LoadCase(path, &c); err != nil {
			return nil, err
		}
		f, class := checkC06(&c)
		if f == nil && strings.HasPrefix(class, "skip:") {
			return nil, fmt.Errorf("replay case outside the domain: %s", class)
		}
		return f, nil
	}
}
