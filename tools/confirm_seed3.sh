#!/bin/bash
# usage: confirm_seed3.sh <dir with patch.diff, seed_demo_test.go.txt, demo_path.txt, demo_cmd.txt>
# confirms a seeded change in a scratch worktree of /repo HEAD: applies, builds, existing suite passes with it,
# the demonstration fails with it and passes without it. Touches nothing in /repo's working tree.
export GOFLAGS=-mod=mod GOPROXY=off GOSUMDB=off GOTOOLCHAIN=local
SD=$(readlink -f $1)
NAME=$(echo $SD | sed 's#[/.]#_#g' | tail -c 40)
WT=/tmp/ver3/$NAME
mkdir -p /tmp/ver3; rm -rf $WT; git -C /repo worktree prune; git -C /repo worktree add -q --detach $WT HEAD || exit 2
cd $WT
ok=1
git apply $SD/patch.diff || { echo "CONFIRM: patch does not apply"; ok=0; }
if [ $ok = 1 ]; then
  if git diff --name-only | grep -q "_test.go\|verifhook"; then echo "CONFIRM: patch touches tests or hooks"; ok=0; fi
  go build ./... || { echo "CONFIRM: does not build"; ok=0; }
fi
if [ $ok = 1 ]; then
  # queryer.TestSubscribe / TestSubscribeErrorQuery are timing-flaky on the unchanged code under load: up to 3 attempts
  suite() { for i in 1 2 3; do go test -vet=off -count=1 ./... > $WT.suite.log 2>&1 && return 0; grep -E "^--- FAIL" $WT.suite.log | grep -v "TestSubscribe" | grep -q . && return 1; done; return 1; }
  if suite; then echo "CONFIRM: existing suite passes with the change"; else echo "CONFIRM: EXISTING SUITE FAILS"; grep -E "^(FAIL|---)" $WT.suite.log | head -5; ok=0; fi
  DP=$(cat $SD/demo_path.txt | tr -d ' \n'); mkdir -p $(dirname $DP); cp $SD/seed_demo_test.go.txt $DP
  DEMO=$(grep "go test" $SD/demo_cmd.txt | head -1 | sed 's#cd /tmp/wt[0-9]*/[A-Z0-9]* *&& *##')
  echo "demo: $DEMO"
  ( eval "$DEMO" ) > $WT.demo_with.log 2>&1; w=$?
  git apply -R $SD/patch.diff
  ( eval "$DEMO" ) > $WT.demo_without.log 2>&1; wo=$?
  echo "CONFIRM: demo with change exit=$w (expect non-zero), without exit=$wo (expect 0)"
  if [ $w = 0 ] || [ $wo != 0 ]; then ok=0; tail -5 $WT.demo_without.log; fi
fi
cd /verif
git -C /repo worktree remove --force $WT; rm -f $WT.*.log
[ $ok = 1 ] && echo "CONFIRMED $SD" || echo "NOT-CONFIRMED $SD"
