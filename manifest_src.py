NOTE_COMMON = ("trusts gqlparser v2.5.1 (also used by pebbles), the harness's self-tested reference executor / fakes / codecs, "
               "the Go runtime and race detector; absence of violations is a statement about the explored cases only")

CHECKS = [
    {"property_id": "C06", "category": "exploration", "design_ref": "DESIGN.md §5 C06",
     "technique": "property-based testing (rapid): generated mutation operations with configuration and fault dimensions; counting oracle over the requests fake services receive",
     "text": "generated mutation operations (several root fields, children crossing services) are executed 1..3 times on a gateway with plain or caching planner, max batch size 1/2/3000, optional id hint and an optional failing sibling or child call; from the fakes' logs the oracle counts, per client request, how often each selected mutation root field was received: exactly once, as a mutation, at its owning service only; all other requests must be queries",
     "level_note": NOTE_COMMON + "; generation avoids the feature classes of open C01 findings"},
    {"property_id": "C10", "category": "exploration", "design_ref": "DESIGN.md §5 C10",
     "technique": "property-based testing (rapid): single invalidating edits of generated valid operations (metamorphic) and generated downstream error payloads",
     "text": "(a) a generated valid operation that provably causes downstream requests receives one invalidating edit of 17 kinds; after confirming invalidity on the union schema the gateway must answer alone: no request at any fake service, errors non-empty, data null. (b) one sub-request of a valid operation is answered with a generated GraphQL errors payload; each payload error must appear in the client's errors with message, extensions and path preserved",
     "level_note": NOTE_COMMON + "; generation avoids the feature classes of open C01 findings so that the unedited original is known to execute cleanly"},
    {"property_id": "C09", "category": "fault_enumeration", "design_ref": "DESIGN.md §5 C09",
     "technique": "fault injection enumerated over (fault kind x downstream call x batch position) of rapid-generated (world, operation) pairs, plus sampled fault pairs",
     "text": "for every rapid-generated (world, store, operation, batch size) a clean run records the downstream HTTP calls; then each of 28 fault kinds is injected at every call and batch position, one at a time (plus one sampled pair), with and without a healthy bystander operation in the same batch. The oracle: returns within the watchdog, no panic / process death, well-formed envelope, errors non-empty for failure signals, every scalar in data was returned by a service during the request (taint), bystander and later requests unaffected, no gateway goroutine left",
     "level_note": NOTE_COMMON + "; faults are injected at the fake transport and addressed by content, not by call order"},
    {"property_id": "C11", "category": "exploration", "design_ref": "DESIGN.md §5 C11",
     "technique": "property-based testing (rapid) of the real MultiOpQueryer over a parking fake transport; exhaustive small grid of (N, m)",
     "text": "the real MultiOpQueryer.Query is called with N token-carrying requests and max batch size m over a fake RoundTripper that parks every HTTP call and releases them in a drawn order, optionally failing the call that carries a drawn request (transport error, 500, non-JSON, GraphQL errors) and sending some requests as multipart uploads; the oracle checks N results with result i echoing request i, every request in exactly one call, at most m per call, error without partial results on failure, no goroutine left. The grid N 0..40 x m 1..12 x {FIFO, LIFO} is enumerated exhaustively on every run; thorough adds the race detector",
     "level_note": NOTE_COMMON + "; completion order is owned at the transport only"},
    {"property_id": "C07", "category": "exploration", "design_ref": "DESIGN.md §5 C07",
     "technique": "property-based testing (rapid) over byte strings, JSON shapes, multipart layouts and operations; native go fuzzing of the handler in the thorough tier",
     "text": "generated POST requests (raw bytes, hostile constants, byte-mutated valid bodies, JSON shape grammar, multipart layout grammar, syntactically valid operations against corner-case schemas) are sent through the real handler of a gateway over a generated world; the oracle demands a return without panic or process death, status 422 exactly when an independent reading of the documented request shape says undecodable (open cases accept both), a JSON envelope with data and/or errors per operation, errors + data:null for operations invalid against the gateway schema, and a correctly answered probe request afterwards",
     "level_note": NOTE_COMMON + "; process-killing panics in worker goroutines are attributed through the persisted current case"},
    {"property_id": "C05", "category": "exploration", "design_ref": "DESIGN.md §5 C05",
     "technique": "property-based testing (rapid): conflict-introducing edits of generated mergeable worlds, all permutations of the service list (exhaustive for <=4 services)",
     "text": "a generated mergeable world receives 0..2 conflict edits from a catalogue of 22 (every kind the statement lists) and 0..2 neutral edits; each service SDL stays individually valid; the real merger is run for every permutation of the service list (all n! for n<=4): with a conflict edit every permutation must return an error (no panic, no success), without one acceptance, the merged fact set and the root/Node-field routes must be identical across permutations",
     "level_note": NOTE_COMMON + "; conflict edits use fresh type names; one order-dependence finding (three-way split) is open and gated"},
    {"property_id": "C02", "category": "exploration", "design_ref": "DESIGN.md §5 C02",
     "technique": "property-based testing (rapid): generated worlds x operations; validity predicates over the real planner's steps and over the requests fake services receive",
     "text": "for generated (world, operation) pairs the steps returned by the real SequentialPlanner and the requests the fake services actually receive (saturated data, so every step fires) must parse and validate with gqlparser's full rule set against the target service's own schema, carry the right operation keyword/name, forward client variable values or declared defaults, cover every field instance the reference executor resolves, and add only id/node helpers that are scrubbed from the response",
     "level_note": NOTE_COMMON + "; coverage is judged dynamically on saturated data rather than by static expansion; feature classes of open findings are gated"},
    {"property_id": "C01", "category": "exploration", "design_ref": "DESIGN.md §5 C01",
     "technique": "property-based differential testing (rapid): generated worlds x data x operations through the real gateway vs a reference GraphQL executor on the union schema",
     "text": "rapid generates federated worlds (service SDLs + one shared entity store), client operations from a grammar (aliases, arguments, variables, fragments, directives, abstract types, lists, nulls) and gateway configurations (merger, id hint, plain/cached planner, service order); the real gateway is driven through its HTTP handler with fake services behind the real MultiOpQueryer, and its data (modulo pruning of empty objects) must equal what a reference executor computes on the union schema over the same store, with errors empty. Open known findings are replayed and reported as KNOWN-FINDING; their syntactic feature classes are excluded from the search and counted",
     "level_note": NOTE_COMMON + "; data always conforms to the schemas; 18 feature classes are gated by open findings (see known_findings.json and coverage.excluded_by_gate)"},
    {"property_id": "C03", "category": "exploration", "design_ref": "DESIGN.md §5 C03",
     "technique": "property-based testing (rapid): generated mergeable service-schema sets, bidirectional inclusion oracle on schema facts",
     "text": "rapid-generated federated worlds (mergeable by construction) are merged by the real ExtendMergerFunc / SanitizeNodeMergerFunc in a drawn service order; the oracle flattens every service schema and the merged schema into facts (types, kinds, fields, argument name/type/default, enum values, union members, implements, input fields, directives) and demands inclusion in both directions, a print/load round trip of the merged schema, and that operations generated valid against one service validate against the merged schema",
     "level_note": NOTE_COMMON + "; descriptions excluded; worlds limited to the shapes the generator builds"},
    {"property_id": "C04", "category": "exploration", "design_ref": "DESIGN.md §5 C04",
     "technique": "property-based testing (rapid): generated mergeable worlds, validity predicate over the routing table against independently computed declarers",
     "text": "for generated mergeable worlds the TypeURLMap returned by the real merger is checked field by field: every routable field of every object type has a route to a service whose SDL declares it, root fields go to their single declarer, the stitchable flag equals 'implements Node', nothing is routed that the merged schema lacks, and the routed service set is bracketed from both sides",
     "level_note": NOTE_COMMON},
    {"property_id": "C20", "category": "exploration", "design_ref": "DESIGN.md §5 C20",
     "technique": "property-based testing (rapid) with harness-controlled completion order and hook-point perturbation; exhaustive small grid",
     "text": "rapid-generated (n, error pattern, worker completion order, callback/hook-point yields) executions of the real AsyncMapReduce checked against history invariants (map once, reduce once per success and never concurrently, complete at return, all errors returned, no goroutine left); the grid n<=4 x 2^n x n! sequential completion orders is enumerated exhaustively on every run; thorough adds the race detector",
     "level_note": NOTE_COMMON + "; schedule control limited to callbacks and the 9 verif hook points"},
]

_PENDING = ["C08","C12","C13","C14","C15","C16","C17","C18","C19"]
NOT_APPLICABLE = [{"property_id": p, "reason": "check not built yet (work in progress; the technique applies, see DESIGN.md §5)"} for p in _PENDING]

NOTES = "All checks are property-based tests / fuzz targets in /verif/harness (Go, rapid v1.3.0) run by /verif/check; see DESIGN.md."
