package props

import (
	"bytes"
	"fmt"
	"regexp"
	"strings"
	"sync"
	"testing"
	"time"

	"github.com/buildbuildio/pebbles"
	"github.com/buildbuildio/pebbles/format"
	"github.com/vektah/gqlparser/v2"
	"github.com/vektah/gqlparser/v2/ast"
	gqlformatter "github.com/vektah/gqlparser/v2/formatter"
	"pgregory.net/rapid"

	"verif/harness/ev"
	"verif/harness/fake"
	"verif/harness/gwx"
	"verif/harness/opgen"
	"verif/harness/refexec"
	"verif/harness/world"
)

type CacheAction struct {
	Kind string `json:"kind"` // request | burst | sleep
	Ops  []int  `json:"ops,omitempty"`
}

// CacheCase: a request history replayed on a gateway with the caching planner and on one with the plain planner.
type CacheCase struct {
	World   *world.World     `json:"world"`
	TTLNs   int64            `json:"ttl_ns"`
	Pool    []gwx.GQLRequest `json:"pool"`
	History []CacheAction    `json:"history"`
}

func cacheKeyOf(schema *ast.Schema, r gwx.GQLRequest) string {
	doc, errs := gqlparser.LoadQuery(schema, r.Query)
	if errs != nil {
		return "invalid:" + r.Query
	}
	op, err := refexec.PickOperation(doc, r.OperationName)
	if err != nil {
		return "noop:" + r.Query
	}
	return format.NewBufferedFormatter().FormatSelectionSet(op.SelectionSet)
}

func respKey(r *gwx.Response) (string, []string, *ev.Failure) {
	if r.TimedOut {
		return "", nil, ev.Failf("hang", "no response")
	}
	if r.Panic != "" {
		return "", nil, ev.Failf("panic:"+gwx.PanicSite(r.Panic), "%s", trunc(r.Panic, 800))
	}
	d, err := gwx.Decode(r.Body)
	if err != nil {
		return "", nil, ev.Failf("envelope", "%v: %s", err, trunc(string(r.Body), 200))
	}
	data, errs := resultKey(d)
	return fmt.Sprintf("%d|%s", r.Status, data), errs, nil
}

func checkC14(c *CacheCase) (*ev.Failure, map[string]int) {
	stats := map[string]int{}
	netA, err := fake.NewNet(c.World)
	if err != nil {
		return ev.Failf("harness", "%v", err), stats
	}
	netB, _ := fake.NewNet(c.World)
	gwA, err := gwx.Build(c.World, netA, gwx.Config{Planner: "cached", TTLNs: c.TTLNs})
	if err != nil {
		return ev.Failf("harness", "%v", err), stats
	}
	gwB, err := gwx.Build(c.World, netB, gwx.Config{})
	if err != nil {
		return ev.Failf("harness", "%v", err), stats
	}
	union, _ := c.World.UnionSchema()
	seenKeyOp := map[string]map[int]bool{} // cache key -> pool indexes requested so far
	post := func(gw *pebbles.Gateway, i int) *gwx.Response { return gwx.PostOp(gw, c.Pool[i], 10*time.Second) }
	fragDir := map[int]bool{}
	fragmentDirectiveOp := func(i int) bool {
		if v, ok := fragDir[i]; ok {
			return v
		}
		r := c.Pool[i]
		fs := caseFeatures(&ExecCase{World: c.World, Op: opgen.Op{Query: r.Query, Variables: r.Variables, OperationName: r.OperationName}})
		fragDir[i] = fs["op.directiveOnFragment"]
		return fragDir[i]
	}
	compare := func(i int, ra, rb *gwx.Response, step int) *ev.Failure {
		ka, ea, f := respKey(ra)
		if f != nil {
			return f
		}
		kb, eb, f := respKey(rb)
		if f != nil {
			return ev.Failf("harness", "plain gateway: %v", f)
		}
		if len(eb) > 0 && fragmentDirectiveOp(i) {
			// directives on fragments are an open finding (KF-C01-19): where the plain gateway already fails on such an
			// operation, which of the failing sub-requests is reported depends on their completion order - the claim
			// here is only that the cached gateway does not turn the failure into a success
			if len(ea) == 0 {
				return ev.Failf("differs:errors", "step %d, pool op %d: the plain gateway answers with errors %v, the caching one with none", step, i, eb)
			}
			return nil
		}
		if ka != kb {
			return ev.Failf("differs:data", "step %d, pool op %d (%s): the caching gateway answers differently from the plain one\ncached %s\nplain  %s", step, i, trunc(c.Pool[i].Query, 200), trunc(ka, 500), trunc(kb, 500))
		}
		if strings.Join(ea, "\n") != strings.Join(eb, "\n") {
			return ev.Failf("differs:errors", "step %d, pool op %d: errors differ\ncached %v\nplain  %v", step, i, ea, eb)
		}
		return nil
	}
	for step, a := range c.History {
		switch a.Kind {
		case "sleep":
			time.Sleep(3 * time.Millisecond)
		case "request":
			i := a.Ops[0]
			k := cacheKeyOf(union, c.Pool[i])
			if seenKeyOp[k] == nil {
				seenKeyOp[k] = map[int]bool{}
			}
			for j := range seenKeyOp[k] {
				if j != i {
					stats["collisionExercised"]++
					break
				}
			}
			seenKeyOp[k][i] = true
			if f := compare(i, post(gwA, i), post(gwB, i), step); f != nil {
				return f, stats
			}
		case "burst":
			ra := make([]*gwx.Response, len(a.Ops))
			var wg sync.WaitGroup
			for j, i := range a.Ops {
				wg.Add(1)
				go func(j, i int) {
					defer wg.Done()
					ra[j] = post(gwA, i)
				}(j, i)
			}
			wg.Wait()
			for j, i := range a.Ops {
				k := cacheKeyOf(union, c.Pool[i])
				if seenKeyOp[k] == nil {
					seenKeyOp[k] = map[int]bool{}
				}
				seenKeyOp[k][i] = true
				if f := compare(i, ra[j], post(gwB, i), step); f != nil {
					return f, stats
				}
			}
			stats["bursts"]++
		}
	}
	return nil, stats
}

// withExplicitHelpers returns the operation with the helper fields the planner would add (id first in every selection
// of a Node type, __typename and id on abstract types) written out by the client: its selection text equals the
// selection of the original operation after planning.
func withExplicitHelpers(schema *ast.Schema, query string) (string, bool) {
	doc, errs := gqlparser.LoadQuery(schema, query)
	if errs != nil {
		return "", false
	}
	changed := false
	implementsNode := func(d *ast.Definition) bool {
		for _, in := range d.Interfaces {
			if in == "Node" {
				return true
			}
		}
		return false
	}
	helper := func(name string) *ast.Field { return &ast.Field{Name: name, Alias: name} }
	var walk func(ss ast.SelectionSet) ast.SelectionSet
	walk = func(ss ast.SelectionSet) ast.SelectionSet {
		for _, sel := range ss {
			switch x := sel.(type) {
			case *ast.Field:
				if len(x.SelectionSet) == 0 || x.Definition == nil {
					continue
				}
				x.SelectionSet = walk(x.SelectionSet)
				d := schema.Types[x.Definition.Type.Name()]
				if d == nil {
					continue
				}
				abstract := d.Kind == ast.Interface || d.Kind == ast.Union
				needID := false
				if abstract {
					if !containsFieldNamed(x.SelectionSet, "__typename") {
						x.SelectionSet = append(ast.SelectionSet{helper("__typename")}, x.SelectionSet...)
						changed = true
					}
					pts := schema.PossibleTypes[d.Name]
					needID = d.Fields.ForName("id") != nil && len(pts) > 0 && implementsNode(pts[0])
				} else {
					needID = implementsNode(d)
				}
				if needID && !containsFieldNamed(x.SelectionSet, "id") {
					x.SelectionSet = append(ast.SelectionSet{helper("id")}, x.SelectionSet...)
					changed = true
				}
			case *ast.InlineFragment:
				x.SelectionSet = walk(x.SelectionSet)
			}
		}
		return ss
	}
	for _, op := range doc.Operations {
		op.SelectionSet = walk(op.SelectionSet)
	}
	for _, fr := range doc.Fragments {
		fr.SelectionSet = walk(fr.SelectionSet)
	}
	if !changed {
		return "", false
	}
	out := formatDoc(doc)
	if _, errs := gqlparser.LoadQuery(schema, out); errs != nil {
		return "", false
	}
	return out, true
}

func containsFieldNamed(ss ast.SelectionSet, name string) bool {
	for _, sel := range ss {
		switch x := sel.(type) {
		case *ast.Field:
			if x.Name == name {
				return true
			}
		case *ast.InlineFragment:
			if containsFieldNamed(x.SelectionSet, name) {
				return true
			}
		case *ast.FragmentSpread:
			if x.Definition != nil && containsFieldNamed(x.Definition.SelectionSet, name) {
				return true
			}
		}
	}
	return false
}

// addTwinRootField gives Mutation a field with the name and signature of a Query field (cache keys ignore the operation type).
func addTwinRootField(m *world.Model, t *rapid.T) bool {
	qs := m.Roots["Query"]
	if len(qs) == 0 {
		return false
	}
	q := qs[rapid.IntRange(0, len(qs)-1).Draw(t, "twinq")]
	for _, f := range m.Roots["Mutation"] {
		if f.Name == q.Name {
			return true
		}
	}
	cp := *q
	cp.Owner = rapid.IntRange(0, m.NServices-1).Draw(t, "twinowner")
	// the owner must be able to declare the types the field uses: keep the query field's owner when it uses value types
	if q.Type.Kind == world.KValue || q.Type.Kind == world.KIface && !m.Iface(q.Type.Name).OverNode || q.Type.Kind == world.KUnion && !m.Union(q.Type.Name).OverNode {
		cp.Owner = q.Owner
	}
	m.Roots["Mutation"] = append(m.Roots["Mutation"], &cp)
	m.Labels["queryMutationShareFieldName"] = true
	return true
}

func genCacheCase(t *rapid.T) (*CacheCase, []string) {
	wopt := world.DefaultOptions()
	wopt.MinServices = 2
	wopt.ForceMutations = true
	m := world.Generate(t, wopt)
	twin := rapid.IntRange(0, 1).Draw(t, "twin") == 0 && addTwinRootField(m, t)
	w := m.Build()
	w.Store = world.GenerateStore(t, m, world.DefaultStoreOptions())
	union, err := w.UnionSchema()
	if err != nil {
		t.Fatalf("generator bug: %v", err)
	}
	c := &CacheCase{World: w, TTLNs: rapid.SampledFrom([]int64{0, 1, int64(2 * time.Millisecond), int64(time.Hour)}).Draw(t, "ttl")}
	labels := []string{fmt.Sprintf("ttl=%d", c.TTLNs)}
	nbase := rapid.IntRange(1, 3).Draw(t, "nbase")
	for b := 0; b < nbase; b++ {
		o := opgen.DefaultOptions()
		o.IDs = entityIDs(w.Store)
		o.MultiOp = false
		applyGates(&o)
		if rapid.IntRange(0, 3).Draw(t, "mut") == 0 {
			o.OpType = ast.Mutation
		}
		op := opgen.Generate(t, union, o)
		if op == nil {
			continue
		}
		ec := &ExecCase{World: w, Op: *op}
		if closedGateIn(caseFeatures(ec)) != "" {
			continue
		}
		base := gwx.GQLRequest{Query: op.Query, Variables: op.Variables, OperationName: op.OperationName}
		c.Pool = append(c.Pool, base)
		// variants with the same cache key
		doc, errs := gqlparser.LoadQuery(union, op.Query)
		if errs != nil {
			continue
		}
		body := op.Query
		if i := strings.Index(body, "{"); i >= 0 {
			head, sel := body[:i], body[i:]
			_ = doc
			// operation name variants (only for operations without a variable header we cannot rename safely otherwise)
			kw := "query"
			if strings.HasPrefix(strings.TrimSpace(head), "mutation") {
				kw = "mutation"
			}
			vars := ""
			if j := strings.Index(head, "("); j >= 0 {
				vars = head[j:]
			}
			for _, name := range []string{"NameA", "NameB"} {
				n := name
				c.Pool = append(c.Pool, gwx.GQLRequest{Query: kw + " " + name + vars + " " + sel, Variables: op.Variables, OperationName: &n})
			}
			labels = append(labels, "collision:opName")
			// operation type twin: the same selection as a mutation / query when both roots have the field
			other := "mutation"
			if kw == "mutation" {
				other = "query"
			}
			tq := other + " " + vars + " " + sel
			if _, errs := gqlparser.LoadQuery(union, tq); errs == nil {
				c.Pool = append(c.Pool, gwx.GQLRequest{Query: tq, Variables: op.Variables})
				labels = append(labels, "collision:opType")
			}
			// the operation with the planner's helper fields written out by the client
			if hq, ok := withExplicitHelpers(union, op.Query); ok {
				hreq := gwx.GQLRequest{Query: hq, Variables: op.Variables, OperationName: op.OperationName}
				if closedGateIn(caseFeatures(&ExecCase{World: w, Op: opgen.Op{Query: hq, Variables: op.Variables, OperationName: op.OperationName}})) == "" {
					c.Pool = append(c.Pool, hreq)
					labels = append(labels, "collision:explicitHelpers")
				}
			}
			// the same text except for a directive on one fragment spread (the spread decides, not the fragment definition)
			if m := regexp.MustCompile(`\.\.\.\s?F\d+\b`).FindStringIndex(op.Query); m != nil && !strings.HasPrefix(op.Query[m[1]:], " @") {
				for _, d := range []string{" @skip(if: true)", " @include(if: true)"} {
					q3 := op.Query[:m[1]] + d + op.Query[m[1]:]
					if _, errs := gqlparser.LoadQuery(union, q3); errs == nil &&
						closedGateIn(caseFeatures(&ExecCase{World: w, Op: opgen.Op{Query: q3, Variables: op.Variables, OperationName: op.OperationName}})) == "" {
						c.Pool = append(c.Pool, gwx.GQLRequest{Query: q3, Variables: op.Variables, OperationName: op.OperationName})
						labels = append(labels, "collision:spreadDirective")
					}
				}
			}
			// default value variants: the same text except for the declared defaults, sent without values for those variables
			if q2, dropped, ok := withOtherDefaults(union, op.Query); ok {
				v3 := map[string]interface{}{}
				for k, v := range op.Variables {
					if !dropped[k] {
						v3[k] = v
					}
				}
				c.Pool = append(c.Pool, gwx.GQLRequest{Query: op.Query, Variables: v3, OperationName: op.OperationName},
					gwx.GQLRequest{Query: q2, Variables: v3, OperationName: op.OperationName})
				labels = append(labels, "collision:varDefaults")
			}
			// variable value variants
			if len(op.Variables) > 0 {
				v2 := map[string]interface{}{}
				for k, v := range op.Variables {
					v2[k] = v
				}
				// only values whose variable type stays satisfied are changed (an enum value + "2" would make the
				// request fail at the service with a message that depends on map iteration order there)
				vtypes := map[string]string{}
				for _, o := range doc.Operations {
					for _, vd := range o.VariableDefinitions {
						vtypes[vd.Variable] = vd.Type.String()
					}
				}
				for k, v := range v2 {
					base := strings.Trim(vtypes[k], "!")
					switch x := v.(type) {
					case string:
						if base == "String" || base == "ID" {
							v2[k] = x + "2"
						}
					case float64:
						if base == "Int" || base == "Float" {
							v2[k] = x + 1
						}
					case bool:
						if base == "Boolean" {
							v2[k] = !x
						}
					}
				}
				c.Pool = append(c.Pool, gwx.GQLRequest{Query: op.Query, Variables: v2, OperationName: op.OperationName})
				labels = append(labels, "collision:varValues")
			}
		}
	}
	if rapid.IntRange(0, 2).Draw(t, "intropool") == 0 {
		names := []string{"Query", "String", "NoSuchType"}
		for n := range union.Types {
			if !strings.HasPrefix(n, "__") && len(names) < 6 {
				names = append(names, n)
			}
		}
		sortStrings(names)
		q := "query($n: String!, $d: Boolean = false) { __type(name: $n) { name kind fields(includeDeprecated: $d) { name } } }"
		for i := 0; i < 3; i++ {
			c.Pool = append(c.Pool, gwx.GQLRequest{Query: q, Variables: map[string]interface{}{"n": names[rapid.IntRange(0, len(names)-1).Draw(t, "iname")], "d": rapid.Bool().Draw(t, "idep")}})
		}
		labels = append(labels, "collision:introspectionVariables")
	}
	if twin {
		labels = append(labels, "twinRootField")
	}
	if len(c.Pool) == 0 {
		return nil, nil
	}
	nact := rapid.IntRange(4, 14).Draw(t, "nactions")
	for i := 0; i < nact; i++ {
		switch rapid.IntRange(0, 5).Draw(t, "akind") {
		case 0:
			c.History = append(c.History, CacheAction{Kind: "sleep"})
		case 1:
			n := rapid.IntRange(2, 5).Draw(t, "burstn")
			a := CacheAction{Kind: "burst"}
			for j := 0; j < n; j++ {
				a.Ops = append(a.Ops, rapid.IntRange(0, len(c.Pool)-1).Draw(t, "bop"))
			}
			c.History = append(c.History, a)
		default:
			c.History = append(c.History, CacheAction{Kind: "request", Ops: []int{rapid.IntRange(0, len(c.Pool)-1).Draw(t, "rop")}})
		}
	}
	return c, dedup(labels)
}

func TestC14(t *testing.T) {
	rec := ev.Get("C14")
	rec.Rule = "stateful: a gateway with planner.NewCachedPlanner(ttl), ttl in {0, 1ns, 2ms, 1h}, and a gateway with the plain planner over one generated world (optionally with a Mutation field sharing name and signature with a Query field); operation pool built for cache-key collisions (same selection under different operation names, operation types, variable values and defaults, helper fields written out, a directive added to one fragment spread); TestC14ManyOps: 1001..1300 distinct operations within the TTL, three of them several KiB long and equal up to their last field, then early ones again; history of 4..14 actions: request, burst of 2..5 concurrent requests, sleep 3ms; invariant after every request: (status, canonical data, error multiset) of the caching gateway == plain gateway. non-trivial = a history in which two different pool operations with equal selection text (the exported formatter's rendering, the historic cache key) are both requested; distinct by hash(history, pool)"
	defer census.dump("C14")
	mixIntrospection = true
	defer func() { mixIntrospection = false }()
	rapid.Check(t, func(t *rapid.T) {
		c, labels := genCacheCase(t)
		if c == nil {
			rec.Class("skip:no-pool", 1)
			return
		}
		for _, l := range labels {
			if gateClosed("cache." + l) {
				rec.Exclude("cache." + l)
				return
			}
		}
		ev.Current("C14", c)
		f, stats := checkC14(c)
		nt := stats["collisionExercised"] > 0
		if stats["bursts"] > 0 {
			labels = append(labels, "burst")
		}
		if nt {
			labels = append(labels, "collisionExercised")
		}
		rec.Case(ev.Hash(c.Pool, c.History, c.TTLNs), nt, labels...)
		rec.AddExtra("requests_compared", len(c.History))
		rec.Sample(nt, func() interface{} {
			return map[string]interface{}{"ttl_ns": c.TTLNs, "pool": c.Pool, "history": c.History}
		})
		if f != nil {
			if isCensus() {
				census.add(f.Signature, trunc(f.Message, 600))
				return
			}
			if only := onlySig(); only != "" && !strings.HasPrefix(f.Signature, only) {
				return
			}
			ev.WriteFail("C14", c, f)
			t.Fatalf("%v", f)
		}
	})
}

func init() {
	replayers["C14"] = func(path string) (*ev.Failure, error) {
		var c CacheCase
		if _, _, err := ev.LoadCase(path, &c); err != nil {
			return nil, err
		}
		f, _ := checkC14(&c)
		return f, nil
	}
}

// withOtherDefaults re-renders the document with every changeable variable default changed to another value of the
// same type; it returns the names of the variables whose default changed.
func withOtherDefaults(schema *ast.Schema, query string) (string, map[string]bool, bool) {
	doc, errs := gqlparser.LoadQuery(schema, query)
	if errs != nil {
		return "", nil, false
	}
	changed := map[string]bool{}
	for _, o := range doc.Operations {
		for _, vd := range o.VariableDefinitions {
			if vd.DefaultValue != nil && otherValue(schema, vd.DefaultValue) {
				changed[vd.Variable] = true
			}
		}
	}
	if len(changed) == 0 {
		return "", nil, false
	}
	var buf bytes.Buffer
	gqlformatter.NewFormatter(&buf).FormatQueryDocument(doc)
	out := buf.String()
	if _, errs := gqlparser.LoadQuery(schema, out); errs != nil {
		return "", nil, false
	}
	return out, changed, true
}

// otherValue changes a constant value in place to a different value of the same type; false if it cannot.
func otherValue(schema *ast.Schema, v *ast.Value) bool {
	switch v.Kind {
	case ast.IntValue:
		v.Raw += "1"
		return true
	case ast.FloatValue:
		if strings.ContainsAny(v.Raw, "eE") {
			return false
		}
		v.Raw += "5"
		return true
	case ast.StringValue, ast.BlockValue:
		v.Raw += "x"
		return true
	case ast.BooleanValue:
		if v.Raw == "true" {
			v.Raw = "false"
		} else {
			v.Raw = "true"
		}
		return true
	case ast.EnumValue:
		if v.Definition == nil {
			return false
		}
		for _, ev := range v.Definition.EnumValues {
			if ev.Name != v.Raw {
				v.Raw = ev.Name
				return true
			}
		}
		return false
	case ast.ListValue, ast.ObjectValue:
		for _, ch := range v.Children {
			if ch.Value != nil && otherValue(schema, ch.Value) {
				return true
			}
		}
		if v.Kind == ast.ListValue && len(v.Children) > 1 {
			v.Children = v.Children[:len(v.Children)-1]
			return true
		}
		return false
	}
	return false
}

// TestC14ManyOps: more distinct operations within the TTL than any bounded cache would keep (1001..1300), then the
// earliest ones again: whatever the cache does with old entries, the answers stay those of the plain planner.
func TestC14ManyOps(t *testing.T) {
	rec := ev.Get("C14")
	rapid.Check(t, func(t *rapid.T) {
		n := rapid.IntRange(1001, 1300).Draw(t, "nops")
		c := &CacheCase{World: teardownWorld(), TTLNs: int64(time.Hour)}
		for i := 0; i < n; i++ {
			sel := []string{"name phone", "phone", "id name", "name"}[i%4]
			c.Pool = append(c.Pool, gwx.GQLRequest{Query: fmt.Sprintf("{ a%d: getHumans { %s } }", i, sel)})
			c.History = append(c.History, CacheAction{Kind: "request", Ops: []int{i}})
		}
		// two very long operations (key material of several KiB) that differ only near their end
		long := func(last string) string {
			var b strings.Builder
			b.WriteString("{")
			for i := 0; i < 260; i++ {
				fmt.Fprintf(&b, " long%d: getHumans { name }", i)
			}
			b.WriteString(" tail: getHumans { " + last + " } }")
			return b.String()
		}
		for _, last := range []string{"name", "phone", "id name phone"} {
			c.Pool = append(c.Pool, gwx.GQLRequest{Query: long(last)})
			c.History = append(c.History, CacheAction{Kind: "request", Ops: []int{len(c.Pool) - 1}})
		}
		again := rapid.IntRange(5, 40).Draw(t, "again")
		for k := 0; k < again; k++ {
			c.History = append(c.History, CacheAction{Kind: "request", Ops: []int{rapid.IntRange(0, 99).Draw(t, "which")}})
		}
		ev.Current("C14", c)
		f, _ := checkC14(c)
		rec.Case(ev.Hash(n, again, c.History[n:]), true, "manyDistinctOperations")
		if f != nil {
			ev.WriteFail("C14", c, f)
			t.Fatalf("%v", f)
		}
	})
}
