package world

import (
	"fmt"
	"strings"

	"pgregory.net/rapid"
)

// Options switches labelled classes of worlds on and off.
type Options struct {
	MaxServices    int
	Interfaces     bool
	IfaceBias      bool // interface over most Node types, interface fields mostly object references
	Unions         bool
	ValueTypes     bool
	Args           bool
	Inputs         bool
	Mutations      bool
	Subscriptions  bool
	NestedLists    bool // [[T]] on composite fields (labelled class)
	HostileIDs     bool
	ServiceNoNode  bool // a root-only service may omit node
	EmptyAbstract  bool // abstract types without members (C07 only)
	IdOnlyNode     bool // an entity type with no field besides id (C07 only)
	ForceMutations bool
	NodeShapedRoot bool // a Query field other than node with the shape (id: ID!): Node (labelled class)
	MinServices    int
}

func DefaultOptions() Options {
	return Options{MaxServices: 4, MinServices: 1, Interfaces: true, Unions: true, ValueTypes: true, Args: true, Inputs: true,
		Mutations: true, ServiceNoNode: true}
}

var fieldPool = []string{"name", "title", "count", "score", "flag", "code", "label", "rank", "note", "size"}
var refPool = []string{"owner", "parent", "items", "friends", "author", "target", "links", "members", "node"}

type gen struct {
	t    *rapid.T
	m    *Model
	opt  Options
	uniq int
	// global name -> signature so that equal names have equal types everywhere (keeps overlapping selections mergeable)
	sig map[string]string
}

func (g *gen) pick(n int, label string) int {
	if n <= 1 {
		return 0
	}
	return rapid.IntRange(0, n-1).Draw(g.t, label)
}

func (g *gen) chance(pct int, label string) bool {
	return rapid.IntRange(0, 99).Draw(g.t, label) < pct
}

func (g *gen) subset(k int, min int, label string) []int {
	// non-empty subset of 0..k-1 with at least min elements
	var r []int
	for i := 0; i < k; i++ {
		if g.chance(50, label) {
			r = append(r, i)
		}
	}
	for len(r) < min {
		c := g.pick(k, label+"+")
		found := false
		for _, x := range r {
			if x == c {
				found = true
			}
		}
		if !found {
			r = append(r, c)
			// keep sorted
			for i := len(r) - 1; i > 0 && r[i] < r[i-1]; i-- {
				r[i], r[i-1] = r[i-1], r[i]
			}
		}
	}
	return r
}

func contains(a []int, x int) bool {
	for _, v := range a {
		if v == x {
			return true
		}
	}
	return false
}

func superset(a, b []int) bool { // a ⊇ b
	for _, x := range b {
		if !contains(a, x) {
			return false
		}
	}
	return true
}

var leafScalars = []string{"String", "Int", "Float", "Boolean", "ID"}

func (g *gen) leafType() TypeRef {
	n := len(leafScalars) + len(g.m.Scalars) + len(g.m.Enums)
	i := g.pick(n, "leaf")
	var t TypeRef
	switch {
	case i < len(leafScalars):
		t = TypeRef{Name: leafScalars[i], Kind: KScalar}
	case i < len(leafScalars)+len(g.m.Scalars):
		t = TypeRef{Name: g.m.Scalars[i-len(leafScalars)], Kind: KScalar}
	default:
		t = TypeRef{Name: g.m.Enums[i-len(leafScalars)-len(g.m.Scalars)].Name, Kind: KEnum}
	}
	return t
}

func (g *gen) wrap(t TypeRef, allowList bool) TypeRef {
	w := g.pick(6, "wrap")
	if !allowList && w >= 2 {
		w = w % 2
	}
	switch w {
	case 0:
	case 1:
		t.NonNull = true
	case 2:
		t.List = true
	case 3:
		t.List, t.ElemNonNull, t.NonNull = true, true, true
	case 4:
		t.List, t.ElemNonNull = true, true
	case 5:
		t.List, t.NonNull = true, true
	}
	if t.List && t.Composite() && g.opt.NestedLists && g.chance(15, "nested") {
		t.Nested = true
		g.m.Labels["nestedLists"] = true
	}
	return t
}

func (g *gen) literal(t TypeRef, depth int) string {
	if t.List {
		n := g.pick(3, "litlen")
		parts := make([]string, n)
		et := t
		et.List = false
		et.NonNull = t.ElemNonNull
		for i := range parts {
			parts[i] = g.literal(et, depth)
		}
		return "[" + strings.Join(parts, ", ") + "]"
	}
	switch t.Kind {
	case KEnum:
		e := g.m.Enum(t.Name)
		return e.Values[g.pick(len(e.Values), "enumlit")]
	case KInput:
		in := g.m.Input(t.Name)
		var parts []string
		for _, f := range in.Fields {
			if f.Type.NonNull && f.Default == "" || g.chance(50, "inlit") {
				parts = append(parts, f.Name+": "+g.literal(f.Type, depth+1))
			}
		}
		return "{" + strings.Join(parts, ", ") + "}"
	}
	switch t.Name {
	case "Int":
		return fmt.Sprint(rapid.IntRange(-5, 50).Draw(g.t, "intlit"))
	case "Float":
		return fmt.Sprintf("%d.5", rapid.IntRange(0, 20).Draw(g.t, "floatlit"))
	case "Boolean":
		if g.chance(50, "boollit") {
			return "true"
		}
		return "false"
	default:
		return fmt.Sprintf("\"d%d\"", rapid.IntRange(0, 9).Draw(g.t, "strlit"))
	}
}

func (g *gen) argType(depth int) TypeRef {
	var t TypeRef
	if g.opt.Inputs && len(g.m.Inputs) > 0 && depth == 0 && g.chance(25, "arginput") {
		t = TypeRef{Name: g.m.Inputs[g.pick(len(g.m.Inputs), "inp")].Name, Kind: KInput}
	} else {
		t = g.leafType()
	}
	return g.wrap(t, g.chance(30, "arglist"))
}

func (g *gen) args() []Arg {
	if !g.opt.Args || !g.chance(35, "hasargs") {
		return nil
	}
	n := 1 + g.pick(2, "nargs")
	names := []string{"a", "b", "first", "filter"}
	var res []Arg
	for i := 0; i < n; i++ {
		a := Arg{Name: names[(i*2+g.pick(2, "argname"))%len(names)], Type: g.argType(0)}
		dup := false
		for _, x := range res {
			if x.Name == a.Name {
				dup = true
			}
		}
		if dup {
			continue
		}
		if g.chance(35, "argdef") {
			a.Default = g.literal(a.Type, 0)
		}
		res = append(res, a)
	}
	return res
}

// fieldName returns a name whose global signature equals sig (or is fresh).
func (g *gen) fieldName(pool []string, sig string, used map[string]bool) string {
	for tries := 0; tries < 4; tries++ {
		n := pool[g.pick(len(pool), "fname")]
		if used[n] {
			continue
		}
		if s, ok := g.sig[n]; ok && s != sig {
			continue
		}
		g.sig[n] = sig
		return n
	}
	g.uniq++
	n := fmt.Sprintf("%s%d", pool[g.pick(len(pool), "fname2")], g.uniq)
	g.sig[n] = sig
	return n
}

// compositeFor picks a composite type usable by a field owned by service s (s<0: any).
func (g *gen) compositeFor(homes []int) (TypeRef, bool) {
	var cands []TypeRef
	for _, o := range g.m.Objects {
		if o.IsNode {
			cands = append(cands, TypeRef{Name: o.Name, Kind: KNode})
			cands = append(cands, TypeRef{Name: o.Name, Kind: KNode}) // weight
		} else if superset(o.Home, homes) {
			cands = append(cands, TypeRef{Name: o.Name, Kind: KValue})
		}
	}
	for _, x := range g.m.Ifaces {
		if x.OverNode || superset(x.Home, homes) {
			cands = append(cands, TypeRef{Name: x.Name, Kind: KIface})
		}
	}
	for _, x := range g.m.Unions {
		if x.OverNode || superset(x.Home, homes) {
			cands = append(cands, TypeRef{Name: x.Name, Kind: KUnion})
		}
	}
	if len(cands) == 0 {
		return TypeRef{}, false
	}
	return cands[g.pick(len(cands), "comp")], true
}

func (g *gen) newField(homes []int, owner int, used map[string]bool, compositePct int) *Field {
	var t TypeRef
	pool := fieldPool
	if g.chance(compositePct, "iscomp") {
		if c, ok := g.compositeFor(homes); ok {
			t = g.wrap(c, true)
			pool = refPool
		}
	}
	if t.Name == "" {
		t = g.wrap(g.leafType(), g.chance(25, "leaflist"))
	}
	args := g.args()
	sig := t.String() + renderArgs(args)
	name := g.fieldName(pool, sig, used)
	used[name] = true
	return &Field{Name: name, Type: t, Args: args, Owner: owner}
}

// Generate draws a world model.
func Generate(t *rapid.T, opt Options) *Model {
	g := &gen{t: t, opt: opt, sig: map[string]string{}}
	m := &Model{Roots: map[string][]*Field{}, Labels: map[string]bool{}}
	g.m = m
	if opt.MinServices < 1 {
		opt.MinServices = 1
	}
	m.NServices = rapid.IntRange(opt.MinServices, opt.MaxServices).Draw(t, "services")
	k := m.NServices
	m.HasNode = make([]bool, k)

	// leaf vocabulary
	if g.chance(60, "enum") {
		m.Enums = append(m.Enums, &Enum{Name: "Color", Values: []string{"RED", "GREEN", "BLUE"}})
	}
	if g.chance(30, "enum2") {
		m.Enums = append(m.Enums, &Enum{Name: "Unit", Values: []string{"KM", "MILE"}})
	}
	if g.chance(40, "scalar") {
		m.Scalars = append(m.Scalars, "Stamp")
	}
	if opt.Inputs && g.chance(60, "input") {
		in := &Input{Name: "Filter"}
		n := 1 + g.pick(3, "ninf")
		for i := 0; i < n; i++ {
			a := Arg{Name: []string{"q", "min", "tags"}[i], Type: g.wrap(g.leafType(), i == 2)}
			if g.chance(40, "indef") {
				a.Default = g.literal(a.Type, 1)
			}
			in.Fields = append(in.Fields, a)
		}
		m.Inputs = append(m.Inputs, in)
		if g.chance(40, "input2") {
			in2 := &Input{Name: "Paging", Fields: []Arg{{Name: "limit", Type: TypeRef{Name: "Int", Kind: KScalar}, Default: "10"},
				{Name: "filter", Type: TypeRef{Name: "Filter", Kind: KInput}}}}
			m.Inputs = append(m.Inputs, in2)
		}
	}

	// node types (names first, fields later so that they can reference each other)
	nNode := rapid.IntRange(0, 4).Draw(t, "nodeTypes")
	if k >= 2 && nNode == 0 && g.chance(80, "forceNode") {
		nNode = 1 + g.pick(3, "nodeTypes2")
	}
	nodeNames := []string{"Human", "Animal", "Planet", "Book", "Tool"}
	for i := 0; i < nNode; i++ {
		m.Objects = append(m.Objects, &Object{Name: nodeNames[i], IsNode: true})
	}
	if opt.IdOnlyNode && g.chance(50, "idonlynode") {
		// an entity type nobody has a field for besides id (a marker that is only referred to)
		m.Objects = append(m.Objects, &Object{Name: "Marker", IsNode: true, NoFields: true})
		m.Labels["idOnlyNodeType"] = true
	}
	// value types
	if opt.ValueTypes {
		nVal := g.pick(3, "valueTypes")
		valNames := []string{"Address", "Stats", "Meta"}
		for i := 0; i < nVal; i++ {
			m.Objects = append(m.Objects, &Object{Name: valNames[i], Home: g.subset(k, 1, "home")})
		}
	}
	// interfaces / unions
	ifacePct, memberPct, ifaceCompositePct := 45, 60, 40
	if opt.IfaceBias {
		// worlds made for selections on interfaces: an interface over (nearly) all Node types whose fields are mostly object references
		ifacePct, memberPct, ifaceCompositePct = 100, 90, 70
	}
	if opt.Interfaces && nNode >= 1 && g.chance(ifacePct, "iface") {
		x := &Iface{Name: "Being", OverNode: true}
		for _, o := range m.Objects {
			if o.IsNode && !o.NoFields && (len(x.Members) == 0 || g.chance(memberPct, "imem")) {
				x.Members = append(x.Members, o.Name)
				o.Implements = append(o.Implements, x.Name)
			}
		}
		m.Ifaces = append(m.Ifaces, x)
	}
	if opt.Interfaces && opt.ValueTypes && g.chance(20, "viface") {
		var vals []*Object
		for _, o := range m.Objects {
			if !o.IsNode {
				vals = append(vals, o)
			}
		}
		if len(vals) > 0 {
			// value interface: all members share one home set
			home := vals[0].Home
			x := &Iface{Name: "Info", Home: home}
			for _, o := range vals {
				if superset(o.Home, home) && superset(home, o.Home) {
					x.Members = append(x.Members, o.Name)
					o.Implements = append(o.Implements, x.Name)
				}
			}
			m.Ifaces = append(m.Ifaces, x)
		}
	}
	if opt.Unions && nNode >= 1 && g.chance(40, "union") {
		u := &Union{Name: "Thing", OverNode: true}
		for _, o := range m.Objects {
			if o.IsNode && !o.NoFields && (len(u.Members) == 0 || g.chance(60, "umem")) {
				u.Members = append(u.Members, o.Name)
			}
		}
		m.Unions = append(m.Unions, u)
	}
	if opt.EmptyAbstract && g.chance(50, "emptyIface") {
		m.Ifaces = append(m.Ifaces, &Iface{Name: "Ghost", OverNode: false, Home: g.subset(k, 1, "ghome")})
		m.Labels["abstractWithoutMembers"] = true
	}

	// interface fields (shared by all members, one owner per field)
	for _, x := range m.Ifaces {
		used := map[string]bool{"id": true}
		if x.Name == "Ghost" {
			x.Fields = append(x.Fields, &Field{Name: "boo", Type: TypeRef{Name: "String", Kind: KScalar}, Owner: -1})
			continue
		}
		n := 1 + g.pick(3, "nifields")
		for i := 0; i < n; i++ {
			if x.OverNode {
				owner := g.pick(k, "ifowner")
				// interface fields are often object references (cross-service selections below an interface matter)
				x.Fields = append(x.Fields, g.newField([]int{owner}, owner, used, ifaceCompositePct))
			} else {
				f := g.newField(x.Home, -1, used, 0)
				x.Fields = append(x.Fields, f)
			}
		}
	}
	// object fields
	for _, o := range m.Objects {
		if o.NoFields {
			continue
		}
		used := map[string]bool{"id": true}
		for _, in := range o.Implements {
			for _, f := range m.Iface(in).Fields {
				cp := *f
				o.Fields = append(o.Fields, &cp)
				used[f.Name] = true
			}
		}
		n := 1 + g.pick(4, "nfields")
		if len(o.Fields) > 0 {
			n = g.pick(4, "nfields")
		}
		for i := 0; i < n; i++ {
			if o.IsNode {
				owner := g.pick(k, "owner")
				o.Fields = append(o.Fields, g.newField([]int{owner}, owner, used, 35))
			} else {
				// value types: only node refs and leafs, or value types with superset homes declared earlier
				o.Fields = append(o.Fields, g.valueField(o, used))
			}
		}
		if !o.IsNode && len(o.Implements) == 0 && g.chance(20, "valueid") {
			// a plain type may have a field called id without being a Node (the gateway treats the name specially)
			o.Fields = append(o.Fields, &Field{Name: "id", Type: TypeRef{Name: "ID", Kind: KScalar}, Owner: -1})
			m.Labels["valueTypeWithId"] = true
		}
	}
	// roots
	nQ := 1 + g.pick(4, "nquery")
	used := map[string]bool{"node": true}
	for i := 0; i < nQ; i++ {
		owner := g.pick(k, "qowner")
		f := g.newField([]int{owner}, owner, used, 75)
		f.Name = g.rootName("get", f, used)
		m.Roots["Query"] = append(m.Roots["Query"], f)
	}
	if mk := m.Object("Marker"); mk != nil && mk.NoFields {
		owner := g.pick(k, "markerowner")
		m.Roots["Query"] = append(m.Roots["Query"], &Field{Name: "theMarker", Type: TypeRef{Name: "Marker", Kind: KNode}, Owner: owner})
	}
	if opt.Mutations && (g.chance(50, "hasmut") || opt.ForceMutations) {
		nM := 1 + g.pick(3, "nmut")
		usedM := map[string]bool{}
		for i := 0; i < nM; i++ {
			owner := g.pick(k, "mowner")
			f := g.newField([]int{owner}, owner, usedM, 70)
			f.Name = g.rootName("save", f, usedM)
			m.Roots["Mutation"] = append(m.Roots["Mutation"], f)
		}
	}
	if opt.Subscriptions {
		nS := 1 + g.pick(2, "nsub")
		usedS := map[string]bool{}
		for i := 0; i < nS; i++ {
			owner := g.pick(k, "sowner")
			f := g.newField([]int{owner}, owner, usedS, 85)
			f.Name = g.rootName("on", f, usedS)
			m.Roots["Subscription"] = append(m.Roots["Subscription"], f)
		}
	}
	if opt.NodeShapedRoot && nNode > 0 && g.chance(25, "nodeshaped") {
		owner := g.pick(k, "nsowner")
		m.Roots["Query"] = append(m.Roots["Query"], &Field{Name: "lookup", Owner: owner,
			Type: TypeRef{Name: "Node", Kind: KIface},
			Args: []Arg{{Name: "id", Type: TypeRef{Name: "ID", Kind: KScalar, NonNull: true}}}})
		m.Labels["nodeShapedRootField"] = true
	}
	// node entry points: required where a service owns a non-id field of a Node type
	for s := 0; s < k; s++ {
		owns := false
		for _, o := range m.Objects {
			if !o.IsNode {
				continue
			}
			for _, f := range o.Fields {
				if f.Owner == s {
					owns = true
				}
			}
		}
		declaresNode := false
		for _, o := range m.Objects {
			if o.IsNode && m.Declares(s, o.Name) {
				declaresNode = true
			}
		}
		switch {
		case owns:
			m.HasNode[s] = true
		case declaresNode:
			m.HasNode[s] = !opt.ServiceNoNode || g.chance(50, "stubnode")
			if !m.HasNode[s] {
				m.Labels["serviceWithoutNode"] = true
			}
		default:
			m.HasNode[s] = false
		}
	}
	return m
}

func (g *gen) rootName(prefix string, f *Field, used map[string]bool) string {
	base := f.Type.Name
	if f.Type.List {
		base += "s"
	}
	n := prefix + base
	for i := 2; used[n]; i++ {
		n = fmt.Sprintf("%s%s%d", prefix, base, i)
	}
	delete(used, f.Name)
	used[n] = true
	return n
}

func (g *gen) valueField(o *Object, used map[string]bool) *Field {
	m := g.m
	if g.chance(30, "vcomp") {
		var cands []TypeRef
		for _, x := range m.Objects {
			if x.IsNode {
				cands = append(cands, TypeRef{Name: x.Name, Kind: KNode})
			} else if x.Name < o.Name && superset(x.Home, o.Home) { // DAG by name order
				cands = append(cands, TypeRef{Name: x.Name, Kind: KValue})
			}
		}
		if len(cands) > 0 {
			t := g.wrap(cands[g.pick(len(cands), "vc")], true)
			args := g.args()
			name := g.fieldName(refPool, t.String()+renderArgs(args), used)
			used[name] = true
			return &Field{Name: name, Type: t, Args: args, Owner: -1}
		}
	}
	f := g.newField(o.Home, -1, used, 0)
	return f
}

// Build renders the model into a World (without data).
func (m *Model) Build() *World {
	w := &World{}
	for s := 0; s < m.NServices; s++ {
		w.Services = append(w.Services, Service{URL: fmt.Sprintf("http://svc-%d.test/graphql", s), SDL: m.RenderSDL(s)})
	}
	w.UnionSDL = m.RenderSDL(-1)
	w.Labels = SortedKeys(m.Labels)
	return w
}
