package props

import (
	"bytes"
	"fmt"
	"io"
	"net/http"
	"net/http/httptest"
	"strings"
	"sync"
	"testing"
	"time"

	"github.com/buildbuildio/pebbles/planner"
	"github.com/buildbuildio/pebbles/queryer"
	"pgregory.net/rapid"

	"verif/harness/ev"
	"verif/harness/fake"
	"verif/harness/gwx"
)

// RealHTTPCase: a mutation sent through the real net/http transport (keep-alive connections to loopback services).
// The owning service may lose the connection after it has read (and executed) the mutation, without an answer:
// whatever the client stack below the gateway does then, the root field is delivered once.
type RealHTTPCase struct {
	RealHTTP bool   `json:"real_http"`
	Warmups  int    `json:"warmups"` // earlier queries through the same gateway (they leave pooled connections behind)
	Field    string `json:"field"`   // plain (service 0) | other (service 1)
	Drop     bool   `json:"drop"`    // the service drops the connection of the mutation request after reading it
}

func checkC06Real(c *RealHTTPCase) *ev.Failure {
	w := uploadWorld()
	net, err := fake.NewNet(w)
	if err != nil {
		return ev.Failf("harness", "%v", err)
	}
	var mu sync.Mutex
	deliveries := 0
	realURL := map[string]string{}
	for _, s := range w.Services {
		svcURL := s.URL
		srv := httptest.NewServer(http.HandlerFunc(func(rw http.ResponseWriter, r *http.Request) {
			body, _ := io.ReadAll(r.Body)
			if strings.Contains(string(body), "mutation") {
				mu.Lock()
				deliveries++
				mu.Unlock()
				if c.Drop {
					if hj, ok := rw.(http.Hijacker); ok {
						if conn, _, err := hj.Hijack(); err == nil {
							conn.Close() // read, executed, no answer
							return
						}
					}
				}
			}
			req, _ := http.NewRequest("POST", svcURL, bytes.NewReader(body))
			req.Header.Set("Content-Type", r.Header.Get("Content-Type"))
			resp, err := net.RoundTrip(req)
			if err != nil {
				http.Error(rw, err.Error(), 502)
				return
			}
			b, _ := io.ReadAll(resp.Body)
			resp.Body.Close()
			rw.Header().Set("Content-Type", "application/json")
			rw.WriteHeader(resp.StatusCode)
			rw.Write(b)
		}))
		defer srv.Close()
		realURL[svcURL] = srv.URL
	}
	tr := &http.Transport{MaxIdleConnsPerHost: 4, IdleConnTimeout: time.Minute}
	defer tr.CloseIdleConnections()
	client := &http.Client{Transport: tr}
	gw, err := gwx.BuildWithFactory(w, net, gwx.Config{}, func(ctx *planner.PlanningContext, url string) queryer.Queryer {
		return queryer.NewMultiOpQueryer(realURL[url], 3000).WithHTTPClient(client)
	})
	if err != nil {
		return ev.Failf("harness", "%v", err)
	}
	for i := 0; i < c.Warmups; i++ {
		if r := gwx.PostOp(gw, gwx.GQLRequest{Query: "{ getHumans { name phone } }"}, 10*time.Second); r.TimedOut || r.Status != 200 {
			return ev.Failf("harness", "warm-up query failed: %d %s", r.Status, trunc(string(r.Body), 200))
		}
	}
	q := fmt.Sprintf("mutation { %s(name: \"x\") }", c.Field)
	resp := gwx.PostOp(gw, gwx.GQLRequest{Query: q}, 10*time.Second)
	if resp.TimedOut {
		return ev.Failf("hang", "no answer to %s", q)
	}
	if resp.Panic != "" {
		return ev.Failf("panic:"+gwx.PanicSite(resp.Panic), "%s", trunc(resp.Panic, 800))
	}
	mu.Lock()
	n := deliveries
	mu.Unlock()
	if n != 1 {
		return ev.Failf("mutation-count:real-http", "mutation root field %s reached its service %d times within one client request (warm-ups %d, connection dropped after reading: %v)", c.Field, n, c.Warmups, c.Drop)
	}
	dec, derr := gwx.Decode(resp.Body)
	if derr != nil {
		return ev.Failf("envelope", "%v", derr)
	}
	if c.Drop && len(dec.Errors) == 0 {
		return ev.Failf("masked:real-http", "the service dropped the connection without an answer but the client's errors is empty: %s", trunc(string(resp.Body), 300))
	}
	if !c.Drop && len(dec.Errors) > 0 {
		return ev.Failf("gateway-errors", "healthy mutation answered with errors: %s", trunc(string(resp.Body), 300))
	}
	return nil
}

func TestC06RealHTTP(t *testing.T) {
	rec := ev.Get("C06")
	rapid.Check(t, func(t *rapid.T) {
		c := &RealHTTPCase{RealHTTP: true, Warmups: rapid.IntRange(0, 3).Draw(t, "warmups"), Field: rapid.SampledFrom([]string{"plain", "other"}).Draw(t, "field"),
			Drop: rapid.IntRange(0, 3).Draw(t, "drop") > 0}
		ev.Current("C06", c)
		f := checkC06Real(c)
		rec.Case(ev.Hash(c), c.Drop && c.Warmups > 0, "realHTTP", fmt.Sprintf("realHTTP:drop=%v", c.Drop))
		if f != nil {
			ev.WriteFail("C06", c, f)
			t.Fatalf("%v", f)
		}
	})
}
