// Package sdlgen generates arbitrary valid GraphQL schemas (SDL text) that
// cover the type system: every kind, wrappers, defaults of every value kind,
// descriptions, deprecations, directive definitions, custom root type names.
package sdlgen

import (
	"fmt"
	"strings"

	"pgregory.net/rapid"
)

type Options struct {
	CustomRoots      bool
	DeepWrappers     bool // more wrapper levels than the 7 ofType levels of pebbles' introspection query
	Descriptions     bool
	Deprecations     bool
	Directives       bool
	Defaults         bool
	InterfaceInherit bool
	SpecifiedBy      bool
}

func DefaultOptions() Options {
	return Options{CustomRoots: true, DeepWrappers: false, Descriptions: true, Deprecations: true, Directives: true, Defaults: true, InterfaceInherit: true, SpecifiedBy: true}
}

type Result struct {
	SDL    string
	Labels []string
}

type gen struct {
	t      *rapid.T
	o      Options
	labels map[string]bool
	// vocabulary
	scalars []string
	enums   map[string][]string
	enumOrd []string
	inputs  []string
	inputF  map[string][]inField
	objects []string
	ifaces  []string
	unions  []string
}

type inField struct {
	name string
	typ  string
}

func (g *gen) pick(n int, l string) int {
	if n <= 1 {
		return 0
	}
	return rapid.IntRange(0, n-1).Draw(g.t, l)
}
func (g *gen) chance(p int, l string) bool { return rapid.IntRange(0, 99).Draw(g.t, l) < p }
func (g *gen) label(l string)              { g.labels[l] = true }

var descPool = []string{"A thing.", "Multi\nline\ndescription", "with \"quotes\" inside", "ünïcödé ✓", "trailing space ", "back\\slash", "x"}

func (g *gen) desc(indent string) string {
	if !g.o.Descriptions || !g.chance(30, "desc") {
		return ""
	}
	g.label("description")
	d := descPool[g.pick(len(descPool), "descv")]
	if strings.Contains(d, "\n") || g.chance(30, "block") {
		return indent + `"""` + "\n" + indent + strings.ReplaceAll(d, "\n", "\n"+indent) + "\n" + indent + `"""` + "\n"
	}
	esc := strings.ReplaceAll(strings.ReplaceAll(d, `\`, `\\`), `"`, `\"`)
	return indent + `"` + esc + `"` + "\n"
}

func (g *gen) deprecated() string {
	if !g.o.Deprecations || !g.chance(15, "dep") {
		return ""
	}
	g.label("deprecation")
	switch g.pick(3, "depkind") {
	case 0:
		return " @deprecated"
	case 1:
		return ` @deprecated(reason: "use \"other\" instead")`
	default:
		return ` @deprecated(reason: "old")`
	}
}

func (g *gen) wrap(name string, maxDepth int) string {
	depth := 0
	s := name
	if g.chance(35, "nn0") {
		s += "!"
	}
	for depth < maxDepth && g.chance(30, "list") {
		s = "[" + s + "]"
		if g.chance(40, "nnl") {
			s += "!"
		}
		depth++
	}
	if depth >= 2 {
		g.label("nestedWrappers")
	}
	return s
}

func (g *gen) wrapDeep(name string) string {
	s := name + "!"
	for i := 0; i < 4; i++ {
		s = "[" + s + "]!"
	}
	g.label("wrappersDeeperThanQuery")
	return s
}

func (g *gen) inputTypeName() string {
	pool := []string{"Int", "Float", "String", "Boolean", "ID"}
	pool = append(pool, g.scalars...)
	pool = append(pool, g.enumOrd...)
	pool = append(pool, g.inputs...)
	return pool[g.pick(len(pool), "intype")]
}

func baseOf(t string) string { return strings.Trim(t, "[]!") }

// literal produces a default value for type t.
func (g *gen) literal(t string, depth int) string {
	nonNull := strings.HasSuffix(t, "!")
	core := strings.TrimSuffix(t, "!")
	if !nonNull && g.chance(10, "nulldef") {
		return "null"
	}
	if strings.HasPrefix(core, "[") {
		inner := core[1 : len(core)-1]
		n := g.pick(3, "deflen")
		parts := make([]string, n)
		for i := range parts {
			parts[i] = g.literal(inner, depth+1)
		}
		return "[" + strings.Join(parts, ", ") + "]"
	}
	if vals, ok := g.enums[core]; ok {
		return vals[g.pick(len(vals), "enumdef")]
	}
	if fs, ok := g.inputF[core]; ok {
		var parts []string
		for _, f := range fs {
			if strings.HasSuffix(f.typ, "!") || (depth < 2 && g.chance(50, "objdef")) {
				parts = append(parts, f.name+": "+g.literal(f.typ, depth+1))
			}
		}
		return "{" + strings.Join(parts, ", ") + "}"
	}
	switch core {
	case "Int":
		return fmt.Sprint(rapid.IntRange(-100, 100000).Draw(g.t, "intdef"))
	case "Float":
		return []string{"1.5", "-0.25", "3.0", "1e3", "2"}[g.pick(5, "floatdef")]
	case "Boolean":
		return []string{"true", "false"}[g.pick(2, "booldef")]
	case "ID":
		return []string{`"id-1"`, `"7"`, `7`}[g.pick(3, "iddef")]
	default: // String and custom scalars
		if core != "String" {
			// a custom scalar takes any literal: numbers, booleans, lists, objects
			if v := g.pick(8, "scalardef"); v < 5 {
				return []string{`{archived: false}`, `[{by: "id"}, 2]`, `42`, `true`, `[]`}[v]
			}
		}
		return []string{`"abc"`, `""`, `"with \"quote\""`, `"uni ü"`, `"a\nb"`, `"back\\slash"`, `"5"`, `"true"`}[g.pick(8, "strdef")]
	}
}

func (g *gen) args(indent string) string {
	if !g.chance(35, "hasargs") {
		return ""
	}
	n := 1 + g.pick(3, "nargs")
	names := []string{"first", "after", "filter", "order", "id"}
	var parts []string
	used := map[string]bool{}
	for i := 0; i < n; i++ {
		name := names[g.pick(len(names), "argname")]
		if used[name] {
			continue
		}
		used[name] = true
		t := g.wrap(g.inputTypeName(), 2)
		a := ""
		if d := g.desc(indent + "  "); d != "" {
			a += "\n" + d + indent + "  "
		}
		a += name + ": " + t
		if g.o.Defaults && g.chance(40, "argdef") {
			a += " = " + g.literal(t, 0)
			g.label("argDefault")
		}
		parts = append(parts, a)
	}
	g.label("arguments")
	return "(" + strings.Join(parts, ", ") + ")"
}

func (g *gen) outputTypeName() string {
	pool := []string{"Int", "Float", "String", "Boolean", "ID"}
	pool = append(pool, g.scalars...)
	pool = append(pool, g.enumOrd...)
	pool = append(pool, g.objects...)
	pool = append(pool, g.ifaces...)
	pool = append(pool, g.unions...)
	return pool[g.pick(len(pool), "outtype")]
}

type fieldDef struct {
	name, args, typ, extra, desc string
}

func (f fieldDef) render() string {
	return f.desc + "  " + f.name + f.args + ": " + f.typ + f.extra + "\n"
}

func (g *gen) fields(n int, used map[string]bool, allowDeep bool) []fieldDef {
	names := []string{"name", "title", "items", "owner", "count", "status", "tags", "meta", "parent", "value"}
	var res []fieldDef
	for i := 0; i < n; i++ {
		name := names[g.pick(len(names), "fname")]
		for k := len(used); used[name]; k++ {
			name = fmt.Sprintf("%s%d", strings.TrimRight(name, "0123456789"), k)
		}
		used[name] = true
		t := g.wrap(g.outputTypeName(), 3)
		if allowDeep && g.o.DeepWrappers && g.chance(10, "deep") {
			t = g.wrapDeep(g.outputTypeName())
		}
		res = append(res, fieldDef{name: name, args: g.args("  "), typ: t, extra: g.deprecated(), desc: g.desc("  ")})
	}
	return res
}

// Generate draws one schema.
func Generate(t *rapid.T, o Options) *Result {
	g := &gen{t: t, o: o, labels: map[string]bool{}, enums: map[string][]string{}, inputF: map[string][]inField{}}
	var out strings.Builder

	// names first (types may reference each other)
	for i := 0; i < g.pick(3, "nscalars"); i++ {
		g.scalars = append(g.scalars, []string{"DateTime", "JSON"}[i])
	}
	for i := 0; i < g.pick(4, "nenums"); i++ {
		name := []string{"Color", "Role", "Unit"}[i]
		vals := []string{"A", "B", "C", "D"}[:1+g.pick(4, "nvals")]
		g.enums[name] = vals
		g.enumOrd = append(g.enumOrd, name)
	}
	nObj := 1 + g.pick(4, "nobjects")
	for i := 0; i < nObj; i++ {
		g.objects = append(g.objects, []string{"User", "Post", "Comment", "Tag"}[i])
	}
	for i := 0; i < g.pick(3, "nifaces"); i++ {
		g.ifaces = append(g.ifaces, []string{"Entity", "Timestamped"}[i])
	}
	for i := 0; i < g.pick(3, "nunions"); i++ {
		g.unions = append(g.unions, []string{"SearchResult", "Media"}[i])
	}

	// scalars
	for _, s := range g.scalars {
		out.WriteString(g.desc(""))
		out.WriteString("scalar " + s)
		if o.SpecifiedBy && g.chance(30, "specby") {
			out.WriteString(` @specifiedBy(url: "https://example.com/` + s + `")`)
			g.label("specifiedBy")
		}
		out.WriteString("\n")
		g.label("customScalar")
	}
	// enums
	for _, name := range g.enumOrd {
		out.WriteString(g.desc(""))
		out.WriteString("enum " + name + " {\n")
		for _, v := range g.enums[name] {
			out.WriteString(g.desc("  "))
			out.WriteString("  " + v + g.deprecated() + "\n")
		}
		out.WriteString("}\n")
		g.label("enum")
	}
	// inputs (acyclic: may reference earlier inputs only)
	for i := 0; i < g.pick(4, "ninputs"); i++ {
		name := []string{"Filter", "Paging", "NewPost"}[i]
		n := 1 + g.pick(4, "ninf")
		var fs []inField
		var body strings.Builder
		used := map[string]bool{}
		for j := 0; j < n; j++ {
			fname := []string{"q", "limit", "tags", "nested", "mode", "when"}[g.pick(6, "infname")]
			if used[fname] {
				continue
			}
			used[fname] = true
			t := g.wrap(g.inputTypeName(), 2)
			body.WriteString(g.desc("  "))
			body.WriteString("  " + fname + ": " + t)
			if o.Defaults && g.chance(45, "indef") {
				body.WriteString(" = " + g.literal(t, 0))
				g.label("inputDefault")
			}
			body.WriteString("\n")
			fs = append(fs, inField{fname, t})
		}
		out.WriteString(g.desc(""))
		out.WriteString("input " + name + " {\n" + body.String() + "}\n")
		g.inputs = append(g.inputs, name)
		g.inputF[name] = fs
		g.label("inputObject")
	}
	// interfaces
	ifaceFields := map[string][]fieldDef{}
	ifaceParents := map[string][]string{}
	ifaceUsed := map[string]bool{} // interface field names are unique over all interfaces (an object may implement several)
	for i, name := range g.ifaces {
		used := ifaceUsed
		var fs []fieldDef
		impl := ""
		if i > 0 && o.InterfaceInherit && g.chance(50, "ifinherit") {
			parent := g.ifaces[0]
			fs = append(fs, ifaceFields[parent]...)
			for _, f := range fs {
				used[f.name] = true
			}
			impl = " implements " + parent
			ifaceParents[name] = []string{parent}
			g.label("interfaceImplementsInterface")
		}
		fs = append(fs, g.fields(1+g.pick(2, "niff"), used, false)...)
		ifaceFields[name] = fs
		out.WriteString(g.desc(""))
		out.WriteString("interface " + name + impl + " {\n")
		for _, f := range fs {
			out.WriteString(f.render())
		}
		out.WriteString("}\n")
		g.label("interface")
	}
	// objects
	for _, name := range g.objects {
		used := map[string]bool{}
		var fs []fieldDef
		var impls []string
		for _, in := range g.ifaces {
			if g.chance(45, "impl") {
				for _, p := range ifaceParents[in] {
					if !containsStr(impls, p) {
						impls = append(impls, p)
						for _, f := range ifaceFields[p] {
							if !used[f.name] {
								used[f.name] = true
								fs = append(fs, f)
							}
						}
					}
				}
				if !containsStr(impls, in) {
					impls = append(impls, in)
				}
				for _, f := range ifaceFields[in] {
					if !used[f.name] {
						used[f.name] = true
						fs = append(fs, f)
					}
				}
			}
		}
		fs = append(fs, g.fields(1+g.pick(3, "nof"), used, true)...)
		out.WriteString(g.desc(""))
		out.WriteString("type " + name)
		if len(impls) > 0 {
			out.WriteString(" implements " + strings.Join(impls, " & "))
		}
		out.WriteString(" {\n")
		for _, f := range fs {
			out.WriteString(f.render())
		}
		out.WriteString("}\n")
	}
	// unions
	for _, name := range g.unions {
		var members []string
		for _, o := range g.objects {
			if len(members) == 0 || g.chance(50, "umember") {
				members = append(members, o)
			}
		}
		out.WriteString(g.desc(""))
		out.WriteString("union " + name + " = " + strings.Join(members, " | ") + "\n")
		g.label("union")
	}
	// directive definitions
	if o.Directives {
		allLocs := []string{"QUERY", "MUTATION", "SUBSCRIPTION", "FIELD", "FRAGMENT_DEFINITION", "FRAGMENT_SPREAD", "INLINE_FRAGMENT", "VARIABLE_DEFINITION",
			"SCHEMA", "SCALAR", "OBJECT", "FIELD_DEFINITION", "ARGUMENT_DEFINITION", "INTERFACE", "UNION", "ENUM", "ENUM_VALUE", "INPUT_OBJECT", "INPUT_FIELD_DEFINITION"}
		for i := 0; i < g.pick(3, "ndirs"); i++ {
			name := []string{"auth", "tag"}[i]
			out.WriteString(g.desc(""))
			out.WriteString("directive @" + name)
			if g.chance(60, "dirargs") {
				var parts []string
				for j := 0; j < 1+g.pick(2, "ndirargs"); j++ {
					t := g.wrap(g.inputTypeName(), 1)
					a := []string{"requires", "name"}[j] + ": " + t
					if o.Defaults && g.chance(50, "dirdef") {
						a += " = " + g.literal(t, 0)
					}
					parts = append(parts, a)
				}
				out.WriteString("(" + strings.Join(parts, ", ") + ")")
				g.label("directiveWithArgs")
			}
			if g.chance(25, "repeatable") {
				out.WriteString(" repeatable")
				g.label("repeatableDirective")
			}
			var locs []string
			for _, l := range allLocs {
				if g.chance(20, "loc") {
					locs = append(locs, l)
				}
			}
			if len(locs) == 0 {
				locs = []string{allLocs[g.pick(len(allLocs), "loc1")]}
			}
			out.WriteString(" on " + strings.Join(locs, " | ") + "\n")
			g.label("directiveDefinition")
		}
	}
	// roots
	qName, mName, sName := "Query", "Mutation", "Subscription"
	hasM, hasS := g.chance(50, "hasM"), g.chance(30, "hasS")
	custom := o.CustomRoots && g.chance(20, "customroots")
	if custom {
		qName, mName, sName = "RootQuery", "RootMutation", "RootSubscription"
		g.label("customRootNames")
		out.WriteString("schema {\n  query: " + qName + "\n")
		if hasM {
			out.WriteString("  mutation: " + mName + "\n")
		}
		if hasS {
			out.WriteString("  subscription: " + sName + "\n")
		}
		out.WriteString("}\n")
	}
	root := func(name string) {
		out.WriteString(g.desc(""))
		out.WriteString("type " + name + " {\n")
		for _, f := range g.fields(1+g.pick(3, "nroot"), map[string]bool{}, true) {
			out.WriteString(f.render())
		}
		out.WriteString("}\n")
	}
	root(qName)
	if hasM {
		root(mName)
	}
	if hasS {
		root(sName)
	}
	res := &Result{SDL: out.String()}
	for l := range g.labels {
		res.Labels = append(res.Labels, l)
	}
	return res
}

func containsStr(a []string, x string) bool {
	for _, v := range a {
		if v == x {
			return true
		}
	}
	return false
}
