#!/usr/bin/env python3
"""Writes the hand-minimised replay cases of known / fixed findings (known/*.json, regress/*.json).
Each case is self-contained JSON in the harness's case format; this script only exists so the
files are reproducible and readable."""
import json, os
ROOT = os.path.dirname(os.path.dirname(os.path.abspath(__file__)))

NODE = "interface Node {\n  id: ID!\n}\n"
SVC0 = NODE + """type Human implements Node {
  id: ID!
  name(prefix: String = "x"): String!
  nick(n: Int): String
  friends: [Human]
  best: Human
}
type Query {
  node(id: ID!): Node
  getHumans: [Human!]!
  getHuman: Human
  maybeHumans: [Human]
  count(min: Int!, max: Int): Int
}
type Mutation {
  saveHuman(name: String!): Human!
}
"""
SVC1 = NODE + """type Human implements Node {
  id: ID!
  phone: String!
  pets: [Animal]
}
type Animal {
  name: String!
  owner: Human!
}
type Query {
  node(id: ID!): Node
  getAnimals: [Animal!]!
}
type Subscription {
  animalAdded: Animal!
}
"""
UNION = NODE + """type Human implements Node {
  id: ID!
  name(prefix: String = "x"): String!
  nick(n: Int): String
  friends: [Human]
  best: Human
  phone: String!
  pets: [Animal]
}
type Animal {
  name: String!
  owner: Human!
}
type Query {
  node(id: ID!): Node
  getHumans: [Human!]!
  getHuman: Human
  maybeHumans: [Human]
  count(min: Int!, max: Int): Int
  getAnimals: [Animal!]!
}
type Mutation {
  saveHuman(name: String!): Human!
}
type Subscription {
  animalAdded: Animal!
}
"""
STORE = {
 "entities": {
  "Human_1": {"type": "Human", "fields": {"name": "ann", "nick": "a", "friends": ["Human_2", None], "best": "Human_2", "phone": "111", "pets": [{"__type": "Animal", "name": "rex", "owner": "Human_1"}]}},
  "Human_2": {"type": "Human", "fields": {"name": "bob", "nick": None, "friends": [], "best": None, "phone": "222", "pets": []}},
 },
 "roots": {
  "Query.getHumans": ["Human_1", "Human_2"], "Query.getHuman": "Human_1", "Query.maybeHumans": [None, "Human_2"], "Query.count": 7,
  "Query.getAnimals": [{"__type": "Animal", "name": "rex", "owner": "Human_1"}],
  "Mutation.saveHuman": "Human_2", "Subscription.animalAdded": {"__type": "Animal", "name": "rex", "owner": "Human_1"},
 },
}

def world(extra0="", extra1="", extraU="", store=None):
    return {"services": [{"url": "http://svc-0.test/graphql", "sdl": SVC0 + extra0}, {"url": "http://svc-1.test/graphql", "sdl": SVC1 + extra1}],
            "union_sdl": UNION + extraU, "store": store or STORE}

def exec_case(prop, sig, query, variables=None, opname=None, config=None, w=None):
    op = {"query": query}
    if variables is not None: op["variables"] = variables
    if opname is not None: op["operationName"] = opname
    return {"property": prop, "signature": sig, "case": {"world": w or world(), "config": config or {}, "op": op}}

CASES = {}

IF0 = NODE + """interface Being {
  id: ID!
  name: String
}
type Human implements Being & Node {
  id: ID!
  name: String
}
type Planet implements Being & Node {
  id: ID!
  name: String
  mass: Int
}
type Query {
  node(id: ID!): Node
  getBeings: [Being!]!
  getBeing: Being
}
"""
IF1 = NODE + """interface Being {
  id: ID!
  age: Int
}
type Human implements Being & Node {
  id: ID!
  age: Int
  planet: Planet
}
type Planet implements Being & Node {
  id: ID!
  age: Int
}
type Query {
  node(id: ID!): Node
}
"""
IFU = NODE + """interface Being {
  id: ID!
  name: String
  age: Int
}
type Human implements Being & Node {
  id: ID!
  name: String
  age: Int
  planet: Planet
}
type Planet implements Being & Node {
  id: ID!
  name: String
  mass: Int
  age: Int
}
type Query {
  node(id: ID!): Node
  getBeings: [Being!]!
  getBeing: Being
}
"""
IFSTORE={"entities":{"Human_1":{"type":"Human","fields":{"name":"ann","age":30,"planet":"Planet_1"}},"Planet_1":{"type":"Planet","fields":{"name":"mars","mass":5,"age":4000}}},
 "roots":{"Query.getBeings":["Human_1","Planet_1"],"Query.getBeing":"Planet_1"}}
def ifworld():
    return {"services":[{"url":"http://svc-0.test/graphql","sdl":IF0},{"url":"http://svc-1.test/graphql","sdl":IF1}],"union_sdl":IFU,"store":IFSTORE}

def uworld():
    U = "union Thing = Human | Planet\n"
    w = ifworld()
    w["services"][0]["sdl"] = IF0.replace("getBeing: Being", "getBeing: Being\n  getThings: [Thing!]!") + U
    w["union_sdl"] = IFU.replace("getBeing: Being", "getBeing: Being\n  getThings: [Thing!]!") + U
    w["store"] = json.loads(json.dumps(IFSTORE))
    w["store"]["roots"]["Query.getThings"] = ["Human_1", "Planet_1"]
    return w


# ---- fixed findings (regress/) ----------------------------------------------------------
CASES["regress/KF-C01-1.json"] = exec_case("C01", "gateway-errors", "{ maybeHumans { phone } }")
CASES["regress/KF-C01-2.json"] = exec_case("C01", "data-mismatch:missing-key", "{ getHuman { friends { name } } }",
    w=world(store=dict(STORE, entities=dict(STORE["entities"], Human_1={"type": "Human", "fields": dict(STORE["entities"]["Human_1"]["fields"], friends=[None])}))))

CASES["regress/KF-C01-3.json"] = exec_case("C01", "data-mismatch", "{ getHuman { x: name } x: getHumans { phone } }")
CASES["regress/KF-C01-3b.json"] = exec_case("C01", "process-death", "{ getHuman { x: name } x: getHumans { phone } }",
    w=world(store=dict(STORE, roots=dict(STORE["roots"], **{"Query.getHumans": []}))))

CASES["regress/KF-C01-4.json"] = exec_case("C01", "data-mismatch", "{ getThings { ... on Human { name age } } }", w=uworld())


# ---- open findings (known/) ---------------------------------------------------------------
def ifworld2():
    """interface world with a composite interface field (friend) owned by service 0"""
    w = json.loads(json.dumps(ifworld()))
    for i in (0,):
        w["services"][i]["sdl"] = w["services"][i]["sdl"].replace("  name: String\n", "  name: String\n  friend: Being\n")
    w["union_sdl"] = w["union_sdl"].replace("  name: String\n", "  name: String\n  friend: Being\n")
    w["store"]["entities"]["Human_1"]["fields"]["friend"] = "Planet_1"
    w["store"]["entities"]["Planet_1"]["fields"]["friend"] = "Human_1"
    return w

KNOWN = [
 # id, gate(s), title, query, variables, world
 ("KF-C01-12", "op.variableNamedId", "a client variable named id collides with the stitched $id of child steps",
  'query($id: String) { getAnimals { owner { name(prefix: $id) } } }', {"id": "pp"}, None),
 ("KF-C01-14", "op.aliasIsHelperName", "a field aliased as id/__typename conflicts with the stitching helper of the same key",
  '{ getHumans { id: name phone } }', None, None),
 ("KF-C01-15", "op.idAliased", "an aliased id makes the planner believe the helper id is present",
  '{ getHumans { myId: id phone } }', None, None),
 ("KF-C01-16", "op.helperFieldConditional", "a client-selected id/__typename carrying @skip/@include is relied upon as stitching helper",
  '{ getHumans { id @include(if: false) phone } }', None, None),
 ("KF-C01-17", "op.duplicateCompositeKey", "the same response key selected twice keeps only the first sub-selection",
  '{ getHuman { best { name } best { nick } } }', None, None),
 ("KF-C01-18", "op.duplicateKeyDifferentConditions", "the same response key selected twice under different conditions keeps only the first occurrence",
  '{ getHuman { name @skip(if: true) name } }', None, None),
 ("KF-C01-19", "op.directiveOnFragment", "directives on inline fragments and fragment spreads are dropped when the fragment is unfolded",
  '{ getHuman { ... @include(if: false) { name } nick } }', None, None),
 ("KF-C01-21", "op.nodeRootDirectField", "node(id:) root: fields selected directly on Node are dropped",
  '{ node(id: "Human_1") { id } }', None, None),
 ("KF-C01-22", "op.nodeRootNestedSelection", "node(id:) root: nested selections are not split across services",
  '{ node(id: "Human_1") { ... on Human { best { phone } } } }', None, None),
 ("KF-C01-25", "op.helperLostToFragmentScrub", "a client-selected id is scrubbed when a fragment on the type does not repeat it",
  '{ getHumans { id ... on Human { phone } } }', None, None),
 ("KF-C01-26", "op.helperOnlyInsideSubtypeFragment", "id/__typename selected only inside a subtype fragment suppresses the helper for the other member types",
  '{ getBeings { name age ... on Planet { id } } }', None, "if"),
 ("KF-C01-28", "op.interfaceSubtypeFragmentCrossService", "interface field spread over services with a subtype fragment and no direct id embeds node(id:$id) in the parent step",
  '{ getBeings { name ... on Planet { age } } }', None, "if"),
 ("KF-C01-29", "op.interfaceNestedSelection", "selections nested below an interface-typed field are not split across services",
  '{ getBeings { friend { age } } }', None, "if2"),
]
KNOWN += [
 ("KF-C01-33", "op.nodeRootSeveralTypeFragments", "node(id:) root with several type fragments: an id selected in one fragment is asked for (and returned for) every type; whether it is scrubbed depends on map iteration order",
  '{ node(id: "Planet_1") { ... on Planet { mass } ... on Human { id } } }', None, "if"),
 ("KF-C01-34", "op.nodeRootHelperId", "node(id:) root: the helper __typename is dropped with the fields selected directly on Node, so the helper id of a type fragment is scrubbed or not depending on map iteration order",
  '{ node(id: "Human_1") { ... on Human { name } } }', None, "if"),
]
def uworld2():
    """union world whose members both have the composite field friend (service 0); age lives in service 1"""
    U = "union Thing = Human | Planet\n"
    w = ifworld2()
    w["services"][0]["sdl"] = w["services"][0]["sdl"].replace("getBeing: Being", "getBeing: Being\n  getThings: [Thing!]!") + U
    w["union_sdl"] = w["union_sdl"].replace("getBeing: Being", "getBeing: Being\n  getThings: [Thing!]!") + U
    w["store"]["roots"]["Query.getThings"] = ["Human_1", "Planet_1"]
    return w

KNOWN += [
 ("KF-C01-37", "op.sameCompositeKeyInFragmentsOfDifferentTypes", "the same composite response key selected in fragments on two member types with different sub-selections: the child steps of one fragment are applied to objects of the other type (extra or missing keys)",
  '{ getThings { ... on Human { friend { age } } ... on Planet { friend { name } } } }', None, "u2"),
]
for kid, gate, title, q, v, wname in KNOWN:
    w = {"if": ifworld, "if2": ifworld2, "u": uworld, "u2": uworld2}[wname]() if wname else None
    c = exec_case("C01", "", q, v, w=w)
    c["title"] = title
    c["gate"] = gate
    CASES["known/%s.json" % kid] = c


# findings whose smallest known reproduction is a generated world: kept as files under tools/cases_src/ (open)
# and tools/cases_src_regress/ (fixed)
_here = os.path.dirname(os.path.abspath(__file__))
for _dir, _dst in (("cases_src", "known/"), ("cases_src_regress", "regress/")):
    if os.path.isdir(os.path.join(_here, _dir)):
        for _name in sorted(os.listdir(os.path.join(_here, _dir))):
            _c = json.load(open(os.path.join(_here, _dir, _name)))
            if _dst == "regress/":
                _c.pop("gate", None)
            CASES[_dst + _name] = _c


def conflict_case(sig, conflicts, add0, add1, neutral=None, add2=None):
    w = world()
    w["services"][0]["sdl"] += add0
    w["services"][1]["sdl"] += add1
    perms = [[0, 1], [1, 0]]
    if add2 is not None:
        w["services"].append({"url": "http://svc-2.test/graphql", "sdl": "type Query {\n  ping2: String\n}\n" + add2})
        perms = [[0,1,2],[0,2,1],[1,0,2],[1,2,0],[2,0,1],[2,1,0]]
    w["union_sdl"] = ""
    w.pop("store", None)
    return {"property": "C05", "signature": sig, "case": {"world": w, "merger": "extend", "conflicts": conflicts, "neutral": neutral or [], "perms": perms}}

CASES["regress/KF-C05-1.json"] = conflict_case("accepted-conflict", ["fieldType"], "type Sig {\n  a: String\n}\n", "type Sig {\n  a: Int\n}\n")
CASES["regress/KF-C05-1b.json"] = conflict_case("accepted-conflict", ["fieldArgs"], "type SigA {\n  a(x: Int): String\n}\n", "type SigA {\n  a(y: Int): String\n}\n")
CASES["regress/KF-C05-1c.json"] = conflict_case("accepted-conflict", ["inputFieldDefault"], "input SigD {\n  a: Int = 1\n}\n", "input SigD {\n  a: Int = 2\n}\n")
TRI_AB = "type Tri {\n  a: String\n  b: String\n}\n"
CASES["known/KF-C05-2.json"] = conflict_case("order:acceptance", [], TRI_AB, TRI_AB, ["neutralThreeWay"], "type Tri {\n  c: String\n}\n")
CASES["known/KF-C05-2"+".json"]["title"] = "acceptance of a type declared identically by two services and disjointly by a third depends on the service order"
CASES["known/KF-C05-2"+".json"]["gate"] = "merge.neutralThreeWay"


import base64
def http_case(sig, body, ct="application/json", w=None):
    if isinstance(body, str): body = body.encode()
    return {"property": "C07", "signature": sig, "case": {"world": w or world(), "content_type": ct, "body_b64": base64.b64encode(body).decode(), "body_text": body.decode("utf-8", "replace")[:600], "kind": "handcrafted"}}

GHOST = {"services": [{"url": "http://svc-0.test/graphql", "sdl": "type Query {\n  getGhost: Ghost\n  name: String\n}\ninterface Ghost {\n  boo: String\n}\n"}],
         "union_sdl": "type Query {\n  getGhost: Ghost\n  name: String\n}\ninterface Ghost {\n  boo: String\n}\n",
         "store": {"entities": {}, "roots": {"Query.getGhost": None, "Query.name": "n"}}}
CASES["regress/KF-C07-1.json"] = http_case("process-death", '{"query":"{ node(id: \\"Human_1\\") { id } }"}')
CASES["regress/KF-C07-2.json"] = http_case("process-death", '{"query":"{ getGhost { boo } }"}', w=GHOST)


def multipart(fields, files):
    b = "verifboundary7MA4YWxkTrZu0gW"
    out = b""
    for name, val in fields:
        out += ("--%s\r\nContent-Disposition: form-data; name=\"%s\"\r\n\r\n%s\r\n" % (b, name, val)).encode()
    for key, fname, data in files:
        out += ("--%s\r\nContent-Disposition: form-data; name=\"%s\"; filename=\"%s\"\r\nContent-Type: application/octet-stream\r\n\r\n" % (b, key, fname)).encode() + data + b"\r\n"
    out += ("--%s--\r\n" % b).encode()
    return out, "multipart/form-data; boundary=" + b

CASES["regress/KF-C07-3.json"] = http_case("panic", "[null]")
_ops1 = '{"query":"{ getHumans { name } }","variables":{"files":[null,null]}}'
_b, _ct = multipart([("operations", "[" + _ops1 + "]"), ("map", '{"0":["9.variables.files.0"]}')], [("0", "a.txt", b"x")])
CASES["regress/KF-C07-4.json"] = http_case("panic", _b, _ct)
_b, _ct = multipart([("operations", "[" + _ops1 + "]"), ("map", '{"0":["0"]}')], [("0", "a.txt", b"x")])
CASES["regress/KF-C07-4b.json"] = http_case("panic", _b, _ct)
_b, _ct = multipart([("operations", _ops1), ("map", '{"0":["variables.files.-1"]}')], [("0", "a.txt", b"x")])
CASES["regress/KF-C07-4c.json"] = http_case("panic", _b, _ct)

def fault_case(sig, query, faults, variables=None, w=None, bystander=False, config=None):
    c = exec_case("C09", sig, query, variables, w=w, config=config)
    c["case"]["faults"] = faults
    if bystander:
        c["case"]["bystander"] = {"query": "{ __schema { queryType { name } } }"}
    return c

S0, S1 = "http://svc-0.test/graphql", "http://svc-1.test/graphql"
CASES["regress/KF-C09-1.json"] = fault_case("process-death", "{ getHumans { name phone } }", [{"url": S0, "query": "", "occurrence": 0, "pos": 0, "kind": "array-longer"}])
CASES["regress/KF-C09-1b.json"] = fault_case("masked", "{ getHumans { name phone } }", [{"url": S1, "query": "", "occurrence": 0, "pos": 0, "kind": "array-shorter"}])
CASES["regress/KF-C09-4.json"] = fault_case("envelope", "{ getHumans { name phone } }", [{"url": S1, "query": "", "occurrence": 0, "pos": 0, "kind": "errors-null-entry"}])
CASES["regress/KF-C09-2.json"] = fault_case("masked", "{ getHumans { name } }", [{"url": S0, "query": "", "occurrence": 0, "pos": 0, "kind": "data-missing"}])
CASES["regress/KF-C13-1.json"] = exec_case("C13", "data-varies", "{ __schema { t: types { n: name } d: directives { n: name } } }")
CASES["regress/KF-C13-1.json"]["case"].update({"repeats": 15, "fresh": 8, "delays_us": [], "gomaxprocs": 4})

def intro_case(sig, sdls, labels=None):
    return {"property": "C15", "signature": sig, "case": {"sdls": sdls, "labels": labels or []}}

CASES["regress/KF-C15-2.json"] = intro_case("process-death", ["type Query {\n  a: [[[[Int!]!]!]!]!\n}\n"], ["wrappersDeeperThanQuery"])
CASES["regress/KF-C15-3.json"] = intro_case("differs", ["directive @auth(requires: String = \"x\", level: Int) on FIELD_DEFINITION | OBJECT\ntype Query {\n  a: Int\n}\n"])
CASES["regress/KF-C15-4.json"] = intro_case("differs", ["enum Color {\n  RED\n  GREEN\n}\ninput F {\n  q: Int = 5\n  tags: [String] = [\"a\", \"b c\"]\n  c: Color = RED\n  s: String = \"5\"\n  n: F = {q: 1}\n  z: Float = null\n}\ntype Query {\n  f(a: Int! = 3, b: F = {q: 1, c: GREEN}, c: [Color!] = [RED]): Int\n}\n"])
CASES["regress/KF-C15-5.json"] = intro_case("differs", ["enum E {\n  A @deprecated\n  B @deprecated(reason: \"use \\\"A\\\"\")\n  C\n}\ntype Query {\n  a: Int @deprecated(reason: \"old\")\n  e: E\n}\n"])
CASES["known/KF-C15-1.json"] = intro_case("differs", ["directive @tag(name: String) repeatable on FIELD | FIELD_DEFINITION\ntype Query {\n  a: Int\n}\n"])
CASES["known/KF-C15-1.json"]["title"] = "repeatable is lost from remote directive definitions (the introspection query does not ask for isRepeatable)"
CASES["known/KF-C15-1.json"]["gate"] = "remote.repeatableDirective"

C16_KNOWN = [
 ("KF-C16-1", "op.directives", "@skip/@include on introspection selections are ignored", '{ __schema { queryType { name kind @skip(if: true) } } }'),
 ("KF-C16-3", "op.duplicateResponseKey", "introspection: the same response key selected twice keeps only the first sub-selection", '{ __schema { queryType { name } queryType { kind } } }'),
]
for kid, gate, title, q in C16_KNOWN:
    c = exec_case("C16", "differs", q)
    c["title"] = title
    c["gate"] = gate
    CASES["known/%s.json" % kid] = c
CASES["regress/KF-C16-10.json"] = exec_case("C16", "differs", 'query($n: String!) { __type(name: $n) { name kind } }', {"n": "Human"})
CASES["regress/KF-C16-11.json"] = exec_case("C16", "differs", '{ __type(name: "Human") { name fields { name } interfaces { name } enumValues { name } inputFields { name } possibleTypes { name } } s: __type(name: "String") { fields { name } interfaces { name } } }')
CASES["regress/KF-C16-12.json"] = exec_case("C16", "differs", '{ __schema { __typename description directives { name isRepeatable __typename } types { __typename name fields { __typename args { __typename } } } } }')
CASES["regress/KF-C16-13.json"] = exec_case("C16", "differs", '{ __type(name: "Being") { possibleTypes { name } } }', w=ifworld())
_W16 = world(extra0="input Flt {\n  q: Int = 5\n  tags: [String] = [\"a\"]\n}\nscalar Stamp @specifiedBy(url: \"https://example.com/stamp\")\nenum E {\n  A @deprecated\n  B\n}\n")
_W16["union_sdl"] += "input Flt {\n  q: Int = 5\n  tags: [String] = [\"a\"]\n}\nscalar Stamp @specifiedBy(url: \"https://example.com/stamp\")\nenum E {\n  A @deprecated\n  B\n}\n"
CASES["regress/KF-C16-14.json"] = exec_case("C16", "differs", '{ f: __type(name: "Flt") { inputFields { name defaultValue } } s: __type(name: "Stamp") { specifiedByURL } e: __type(name: "E") { enumValues(includeDeprecated: true) { name deprecationReason } } }', w=_W16)

def upload_case(sig, ops, files, batch=False):
    return {"property": "C19", "signature": sig, "case": {"batch": batch, "ops": ops, "files": files}}

_B64 = base64.b64encode(b"hello file content").decode()
CASES["regress/KF-C19-1.json"] = upload_case("bytes-differ",
    [{"query": "mutation Up0($a: Upload, $b: Upload!) { f0: upload(file: $a, name: \"x\") { id } f1: attach(file: $b, note: \"n\") { id } }", "variables": {"a": None, "b": None}, "operationName": "Up0"}],
    [{"name": "a.txt", "data_b64": _B64, "paths": ["variables.a", "variables.b"]}])
CASES["regress/KF-C19-2.json"] = upload_case("response",
    [{"query": "mutation Up0($in: FileInput!) { f0: uploadIn(input: $in) f1: attachIn(input: $in) }", "variables": {"in": {"file": None, "name": "n"}}, "operationName": "Up0"}],
    [{"name": "a.txt", "data_b64": _B64, "paths": ["variables.in.file"]}])

_CW = {"services": [{"url": "http://svc-0.test/graphql", "sdl": "type Query {\n  counter: Int\n}\n"},
                    {"url": "http://svc-1.test/graphql", "sdl": "type Query {\n  ping1: String\n}\ntype Mutation {\n  counter: Int\n}\n"}],
       "union_sdl": "type Query {\n  counter: Int\n  ping1: String\n}\ntype Mutation {\n  counter: Int\n}\n",
       "store": {"entities": {}, "roots": {"Query.counter": 1, "Mutation.counter": 2, "Query.ping1": "p"}}}
CASES["regress/KF-C14-1.json"] = {"property": "C14", "signature": "differs", "case": {"world": _CW, "ttl_ns": 3600000000000,
    "pool": [{"query": "mutation { counter }"}, {"query": "query { counter }"}],
    "history": [{"kind": "request", "ops": [0]}, {"kind": "request", "ops": [1]}, {"kind": "request", "ops": [0]}]}}

def teardown_case(sig, steps, constraints=None, nsubs=1, real_ws=False, barriers=None):
    st = [{"actor": "client", "kind": "init", "sub": 0, "wait": True}]
    for a, k, sub, wait in steps:
        st.append({"actor": a, "kind": k, "sub": sub, "wait": wait})
    return {"property": "C18", "signature": sig, "case": {"nsubs": nsubs, "steps": st, "constraints": constraints or [], "barriers": barriers or [], "real_ws": real_ws}}

CASES["regress/KF-C18-1.json"] = teardown_case("process-death", [("client", "start", 0, True), ("client", "stop", 0, False), ("upstream", "complete", 0, True)],
    [["se.Close.afterRead", "se.Listen.beforeLock"], ["se.Listen.closed", "se.Close.beforeSend"]])
CASES["regress/KF-C18-2.json"] = teardown_case("process-death", [("client", "start", 0, True), ("upstream", "event", 0, False), ("client", "stop", 0, True)],
    [["se.Listen.closed", "qs.reader.beforeSendData"]], real_ws=True)
CASES["regress/KF-C18-3.json"] = teardown_case("panic", [("client", "startNoPayload", 0, True)])
CASES["regress/KF-C18-4.json"] = teardown_case("upstream-open", [("client", "start", 0, True), ("client", "disconnect", 0, True)])
CASES["regress/KF-C18-5.json"] = teardown_case("frame", [("client", "start", 0, True), ("client", "start", 1, True), ("upstream", "event", 0, False), ("upstream", "event", 1, True),
    ("upstream", "event", 0, False), ("upstream", "event", 1, True), ("upstream", "event", 1, False), ("upstream", "event", 0, True)], nsubs=2, barriers=["se.Listen.beforeWrite"])
CASES["regress/KF-C18-5.json"]["case"]["header_pause_us"] = 400
CASES["regress/KF-C18-6.json"] = teardown_case("race", [("client", "start", 0, True), ("upstream", "complete", 0, False), ("client", "disconnect", 0, True)], real_ws=True)
# KF-C18-7: the case the thorough tier found is kept as a file (tools/cases_src_regress/)
CASES["regress/KF-C01-13.json"] = exec_case("C01", "data-mismatch", '{ getHumans { x: name name: nick } }')
CASES["regress/KF-C16-2.json"] = exec_case("C16", "differs", '{ __type(name: "Query") { x: name name: kind } }')

_SUBOP = {"query": "subscription { animalAdded { name owner { name phone } } }"}
CASES["regress/KF-C17-1.json"] = {"property": "C17", "signature": "payload-mismatch", "case": {"world": world(), "config": {"planner": "cached", "ttl_ns": 3600000000000}, "conns": 1,
    "subs": [{"conn": 0, "id": "s1", "op": _SUBOP, "field": "animalAdded"}, {"conn": 0, "id": "s2", "op": _SUBOP, "field": "animalAdded"}],
    "events": [{"sub": 0, "value": {"__type": "Animal", "name": "rex", "owner": "Human_1"}}, {"sub": 1, "value": {"__type": "Animal", "name": "tom", "owner": "Human_2"}}]}}
def _subworld():
    w = json.loads(json.dumps(world()))
    w["services"][1]["sdl"] = w["services"][1]["sdl"].replace("  animalAdded: Animal!\n", "  animalAdded: Animal!\n  animalNamed(prefix: String!, max: Int): Animal!\n")
    w["union_sdl"] = w["union_sdl"].replace("  animalAdded: Animal!\n", "  animalAdded: Animal!\n  animalNamed(prefix: String!, max: Int): Animal!\n")
    assert "animalNamed" in w["services"][1]["sdl"] and "animalNamed" in w["union_sdl"]
    return w
_SUBOP2 = {"query": 'subscription($p: String! = "re", $m: Int = 3) { animalNamed(prefix: $p, max: $m) { name owner { name phone } } }'}
CASES["regress/KF-C17-2.json"] = {"property": "C17", "signature": "root-subquery", "case": {"world": _subworld(), "config": {}, "conns": 1,
    "subs": [{"conn": 0, "id": "s1", "op": _SUBOP2, "field": "animalNamed"}],
    "events": [{"sub": 0, "value": {"__type": "Animal", "name": "rex", "owner": "Human_1"}}, {"sub": 0, "value": {"__type": "Animal", "name": "tom", "owner": "Human_2"}}]}}
CASES["regress/KF-C01-10.json"] = exec_case("C01", "gateway-errors", 'query($s: Boolean!) { getHumans { name @skip(if: $s) phone @include(if: $s) } }', {"s": False})
CASES["regress/KF-C01-11.json"] = exec_case("C01", "data-mismatch", 'query($p: String = "zz") { getHumans { name(prefix: $p) } }', {})
CASES["regress/KF-C01-11b.json"] = exec_case("C01", "data-mismatch", 'query($n: Int! = 2, $m: Int = 7) { a: count(min: $n, max: $m) getAnimals { owner { name(prefix: "q") } } }', {"m": None})
CASES["regress/KF-C01-20.json"] = exec_case("C01", "gateway-errors", 'query($n: Int!) { a: count(min: $n) b: count(min: 1, max: $n) }', {"n": 3})
CASES["regress/KF-C01-20b.json"] = exec_case("C01", "gateway-errors", 'query($n: Int = 4) { a: count(min: $n) b: count(min: 1, max: $n) getHumans { phone } }', {})
CASES["regress/KF-C01-23.json"] = exec_case("C01", "data-mismatch", '{ node(id: "Human_1") { ... on Human { __typename name } } }')
CASES["regress/KF-C01-23b.json"] = exec_case("C01", "data-mismatch", '{ node(id: "Human_1") { ... on Human { t: __typename phone name } } }')
def _nodefield_world():
    w = json.loads(json.dumps(world(extra1="extend type Human {\n  node: Human\n  edges: [Human!]\n}\n", extraU="extend type Human {\n  node: Human\n  edges: [Human!]\n}\n")))
    w["store"]["entities"]["Human_1"]["fields"].update({"node": "Human_2", "edges": ["Human_2", "Human_1"]})
    w["store"]["entities"]["Human_2"]["fields"].update({"node": "Human_1", "edges": []})
    return w
CASES["regress/KF-C01-32.json"] = exec_case("C01", "process-death", '{ getHuman { node { best { name } } } }', w=_nodefield_world())
CASES["regress/KF-C01-32b.json"] = exec_case("C01", "process-death", '{ getHumans { name x: node { nick } node { best { phone } friends { name } } } }', w=_nodefield_world())
def _hostile_ids_world():
    w = json.loads(json.dumps(world()).replace("Human_1", "Human:1").replace("Human_2", "a#b:c"))
    return w
CASES["regress/KF-C01-36.json"] = exec_case("C01", "gateway-errors", '{ getHumans { name phone friends { nick phone } best { phone } } }', w=_hostile_ids_world())
_JSONW = {"services": [{"url": "http://svc-0.test/graphql", "sdl": "scalar JSON\ninput Wrap {\n  meta: JSON\n  n: Int\n}\ntype Query {\n  f(arg: JSON): String\n  h(w: Wrap): String\n}\n"}],
          "union_sdl": "scalar JSON\ninput Wrap {\n  meta: JSON\n  n: Int\n}\ntype Query {\n  f(arg: JSON): String\n  h(w: Wrap): String\n}\n",
          "store": {"entities": {}, "roots": {"Query.f": "x", "Query.h": "y"}}}
CASES["regress/KF-C07-6.json"] = exec_case("C01", "process-death", 'query($v: Int) { f(arg: [$v]) }', {"v": 1}, w=_JSONW)
CASES["regress/KF-C07-6b.json"] = exec_case("C01", "gateway-errors", 'query($v: Int, $s: String = "d") { f(arg: {a: [$v, {b: $s}]}) h(w: {meta: {k: [$v]}, n: $v}) }', {"v": 2}, w=_JSONW)
CASES["regress/KF-C01-27.json"] = exec_case("C01", "gateway-errors", '{ __typename getHumans { name } }')
CASES["regress/KF-C01-27b.json"] = exec_case("C01", "gateway-errors", '{ t: __typename }')
CASES["regress/KF-C01-27c.json"] = exec_case("C01", "data-mismatch", '{ __schema { queryType { name } } getHumans { name phone } m: __type(name: "Human") { kind name } }')
CASES["regress/KF-C01-31.json"] = exec_case("C01", "data-mismatch", '{ a: getAnimals { owner { ...F } } b: getHuman { ...F } } fragment F on Human { best { phone } }')

if __name__ == "__main__":
    import sys
    sys.path.insert(0, os.path.dirname(os.path.abspath(__file__)))
    try:
        import more_cases
        more_cases.add(CASES, globals())
    except ImportError:
        pass
    for rel, c in CASES.items():
        p = os.path.join(ROOT, rel)
        os.makedirs(os.path.dirname(p), exist_ok=True)
        with open(p, "w") as f:
            json.dump(c, f, indent=1)
            f.write("\n")
    print("wrote", len(CASES), "cases")
