package props

import (
	"testing"

	"github.com/buildbuildio/pebbles/merger"
	"pgregory.net/rapid"

	"verif/harness/world"
)

func mergeInputs(t interface{ Fatalf(string, ...interface{}) }, w *world.World, order []int) []*merger.MergeInput {
	schemas, err := w.ServiceSchemas()
	if err != nil {
		t.Fatalf("generator bug: %v", err)
	}
	ins := make([]*merger.MergeInput, len(schemas))
	for i := range schemas {
		j := i
		if len(order) == len(schemas) {
			j = order[i]
		}
		ins[i] = &merger.MergeInput{Schema: schemas[j], URL: w.Services[j].URL}
	}
	return ins
}

// TestSelfWorldLoads: generated service SDL and union SDL always load (generator soundness).
func TestSelfWorldLoads(t *testing.T) {
	rapid.Check(t, func(t *rapid.T) {
		m := world.Generate(t, world.DefaultOptions())
		w := m.Build()
		if _, err := w.ServiceSchemas(); err != nil {
			t.Fatalf("service SDL does not load: %v", err)
		}
		if _, err := w.UnionSchema(); err != nil {
			t.Fatalf("union SDL does not load: %v\n%s", err, w.UnionSDL)
		}
		w.Store = world.GenerateStore(t, m, world.DefaultStoreOptions())
	})
}
