#!/bin/bash
# dev helper like t.sh, but against a scratch worktree of /repo at /dev/shm/dev/repo (created on first use at HEAD),
# so that /repo itself stays untouched while registered checks are running. usage: tools/dev_t.sh TestName checks [go test args]
export GOFLAGS=-mod=mod GOPROXY=off GOSUMDB=off GOTOOLCHAIN=local
D=/dev/shm/dev
mkdir -p $D
[ -d $D/repo ] || { git -C /repo worktree prune; git -C /repo worktree add -q --detach $D/repo HEAD || exit 2; }
rsync -a --delete --exclude testdata /verif/harness/ $D/harness/
sed -i "s#=> /repo#=> $D/repo#" $D/harness/go.mod
rm -rf $D/out; mkdir -p $D/out
cd $D/harness
T=$1; N=${2:-1000}; shift; shift
VERIF_OUT=$D/out go test -tags verif -count=1 -run "^$T\$" ./props -rapid.checks=$N -rapid.shrinktime=15s "$@" 2>&1 | grep -v '\[rapid\] draw' | tail -30
ls $D/out
