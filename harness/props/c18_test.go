package props

import (
	"fmt"
	"io"
	"runtime"
	"sort"
	"strings"
	"sync"
	"testing"
	"time"

	"github.com/buildbuildio/pebbles"
	"github.com/buildbuildio/pebbles/requests"
	"github.com/buildbuildio/pebbles/verifhook"
	"pgregory.net/rapid"

	"verif/harness/ev"
	"verif/harness/fake"
	"verif/harness/gwx"
	"verif/harness/subx"
	"verif/harness/world"
)

// TStep: one action of a teardown history. Wait: let the system settle before the next step; without it the next
// step is issued immediately (so the two race).
type TStep struct {
	Actor string `json:"actor"` // client | upstream
	Kind  string `json:"kind"`  // client: start stop terminate disconnect malformed incomplete startNoPayload unknownType init ; upstream: event complete error disconnect
	Sub   int    `json:"sub"`
	Wait  bool   `json:"wait"`
	N     int    `json:"n,omitempty"` // upstream burst: number of wide events sent back to back
}

// TeardownCase: subscriptions on ONE client connection, a history of client and upstream actions, and ordering
// constraints "P happens before Q" over the verif hook points.
type TeardownCase struct {
	NSubs       int         `json:"nsubs"`
	Steps       []TStep     `json:"steps"`
	Constraints [][2]string `json:"constraints,omitempty"`
	// Barriers: hook points at which the first goroutine to arrive waits (bounded) for a second one, so that both
	// proceed at the same moment (e.g. two listeners about to write a frame to one connection)
	Barriers []string `json:"barriers,omitempty"`
	// HeaderPauseUS: the client link deschedules a writer for this long after every short write (frame header)
	HeaderPauseUS int `json:"header_pause_us,omitempty"`
	// ChildDelayUS: the services answer the child-step requests of an event after this delay, so that a teardown
	// can fall into a request that is in flight
	ChildDelayUS int `json:"child_delay_us,omitempty"`
	// ChildDropStall: the service of the child steps loses the connection of the first child request without an
	// answer and does not answer any later one (until the case is over); a client that ends its connection must
	// still be let go
	ChildDropStall bool `json:"child_drop_stall,omitempty"`
	RealWS         bool `json:"real_ws,omitempty"`
	// MuteClose: the real websocket upstream never answers close frames (only the end of the TCP connection ends it)
	MuteClose bool `json:"mute_close,omitempty"`
}

func teardownWorld() *world.World {
	node := "interface Node {\n  id: ID!\n}\n"
	s0 := node + "type Human implements Node {\n  id: ID!\n  name: String!\n}\ntype Query {\n  node(id: ID!): Node\n  getHumans: [Human!]!\n}\ntype Subscription {\n  humanAdded: Human!\n  tick: Int\n}\n"
	s1 := node + "type Human implements Node {\n  id: ID!\n  phone: String!\n}\ntype Query {\n  node(id: ID!): Node\n}\n"
	u := node + "type Human implements Node {\n  id: ID!\n  name: String!\n  phone: String!\n}\ntype Query {\n  node(id: ID!): Node\n  getHumans: [Human!]!\n}\ntype Subscription {\n  humanAdded: Human!\n  tick: Int\n}\n"
	return &world.World{
		Services: []world.Service{{URL: "http://svc-0.test/graphql", SDL: s0}, {URL: "http://svc-1.test/graphql", SDL: s1}},
		UnionSDL: u,
		Store: &world.Store{
			Entities: map[string]*world.Entity{"Human_1": {Type: "Human", Fields: map[string]interface{}{"name": "ann", "phone": "111"}}},
			Roots:    map[string]interface{}{"Query.getHumans": []interface{}{"Human_1"}, "Subscription.humanAdded": "Human_1", "Subscription.tick": float64(1)},
		},
	}
}

var teardownOps = []string{"subscription { humanAdded { name phone } }", "subscription { tick }", "subscription S { humanAdded { id name } }"}

type hookSched struct {
	barriers    map[string]bool
	waiting     map[string]int
	met         map[string]bool
	mu          sync.Mutex
	cond        *sync.Cond
	passed      map[string]int
	constraints [][2]string
	satisfied   map[int]bool
	trace       []string
}

func newHookSched(cs [][2]string) *hookSched {
	h := &hookSched{passed: map[string]int{}, constraints: cs, satisfied: map[int]bool{}}
	h.cond = sync.NewCond(&h.mu)
	return h
}

func (h *hookSched) at(p string) {
	h.mu.Lock()
	defer h.mu.Unlock()
	// Q waits (bounded) for P
	for i, c := range h.constraints {
		if c[1] == p && h.passed[c[0]] == 0 {
			deadline := time.Now().Add(250 * time.Millisecond)
			for h.passed[c[0]] == 0 && time.Now().Before(deadline) {
				waitCond(h.cond, 5*time.Millisecond)
			}
			if h.passed[c[0]] > 0 {
				h.satisfied[i] = true
			}
		}
	}
	if h.barriers[p] {
		if h.waiting[p] > 0 {
			h.met[p] = true
			h.cond.Broadcast()
		} else {
			h.waiting[p]++
			deadline := time.Now().Add(150 * time.Millisecond)
			for !h.met[p] && time.Now().Before(deadline) {
				waitCond(h.cond, 5*time.Millisecond)
			}
			h.waiting[p]--
			if h.met[p] {
				h.satisfied[-1] = true
				h.met[p] = false
			}
		}
	}
	h.passed[p]++
	if len(h.trace) < 400 {
		h.trace = append(h.trace, p)
	}
	h.cond.Broadcast()
}

// waitCond waits on c with a timeout (c.L must be held).
func waitCond(c *sync.Cond, d time.Duration) {
	done := make(chan struct{})
	go func() {
		select {
		case <-time.After(d):
			c.L.Lock()
			c.Broadcast()
			c.L.Unlock()
		case <-done:
		}
	}()
	c.Wait()
	close(done)
}

var c18Mu sync.Mutex

// settleLimit bounds the waits for "closed" and "no goroutine left": a leak lasts forever, so the limit only has to be
// far above what parked hook points (up to 250 ms each) and a busy machine can add; it is paid only when a check fails.
const settleLimit = 30 * time.Second

func subscriptionGoroutines() (int, string) {
	buf := make([]byte, 1<<20)
	n := runtime.Stack(buf, true)
	cnt := 0
	which := ""
	for _, g := range strings.Split(string(buf[:n]), "\n\n") {
		for _, fn := range []string{"subscriptionEntry).Listen", "subscriptionEntry).Close", "MultiOpQueryer).Subscribe", "pebbles.sendHeartbeat", "subscriptionHandler",
			"pebbles/queryer.", "pebbles/executor."} {
			if strings.Contains(g, fn) {
				cnt++
				which = fn
				break
			}
		}
	}
	return cnt, which
}

// pebblesStacks returns the stacks of the goroutines that run code of the gateway (witness of a hang or leak).
func pebblesStacks() string {
	buf := make([]byte, 1<<20)
	n := runtime.Stack(buf, true)
	var out []string
	for _, g := range strings.Split(string(buf[:n]), "\n\n") {
		if strings.Contains(g, "buildbuildio/pebbles") && !strings.Contains(g, "verif/harness/props.checkC18") {
			out = append(out, g)
		}
	}
	return strings.Join(out, "\n\n")
}

func settle() { time.Sleep(1500 * time.Microsecond) }

func checkC18(c *TeardownCase) (*ev.Failure, map[string]bool) {
	c18Mu.Lock()
	defer c18Mu.Unlock()
	info := map[string]bool{}
	w := teardownWorld()
	var wsSrv *subx.WSServer
	if c.RealWS {
		wsSrv = subx.NewWSServer(nil)
		wsSrv.MuteClose = c.MuteClose
		defer wsSrv.Close()
		for i := range w.Services {
			w.Services[i].URL = fmt.Sprintf("%s/svc%d", wsSrv.Server.URL, i)
		}
	}
	net, err := fake.NewNet(w)
	if err != nil {
		return ev.Failf("harness", "%v", err), info
	}
	if c.ChildDelayUS > 0 {
		net.BeforeRespond = func(string, []*fake.Received) { time.Sleep(time.Duration(c.ChildDelayUS) * time.Microsecond) }
	}
	if c.ChildDropStall {
		release := make(chan struct{})
		defer close(release)
		var dsMu sync.Mutex
		childCalls := 0
		isChild := func(reqs []*fake.Received) bool {
			return len(reqs) > 0 && strings.Contains(reqs[0].Query, "node(id: $id)")
		}
		net.Fault = func(callIdx int, url string, reqs []*fake.Received, normal []map[string]interface{}) *fake.FaultResponse {
			if !isChild(reqs) {
				return nil
			}
			dsMu.Lock()
			defer dsMu.Unlock()
			childCalls++
			if childCalls == 1 {
				return &fake.FaultResponse{Err: io.EOF}
			}
			return nil
		}
		net.Stall = func(url string, reqs []*fake.Received) <-chan struct{} {
			dsMu.Lock()
			defer dsMu.Unlock()
			if isChild(reqs) && childCalls >= 1 {
				return release
			}
			return nil
		}
	}
	up := subx.NewUpstream(net)
	var gw *pebbles.Gateway
	if c.RealWS {
		gw, err = gwx.Build(w, net, gwx.Config{})
	} else {
		gw, err = gwx.BuildWithFactory(w, net, gwx.Config{}, up.Factory())
	}
	if err != nil {
		return ev.Failf("harness", "%v", err), info
	}
	baseline, _ := subscriptionGoroutines() // leftovers of earlier (failing) cases in census mode are not this case's
	hs := newHookSched(c.Constraints)
	hs.barriers, hs.waiting, hs.met = map[string]bool{}, map[string]int{}, map[string]bool{}
	for _, b := range c.Barriers {
		hs.barriers[b] = true
	}
	verifhook.Set(hs.at)
	defer verifhook.Set(nil)

	cc, err := subx.ConnectPausing(gw, time.Duration(c.HeaderPauseUS)*time.Microsecond)
	if err != nil {
		return ev.Failf("harness", "handshake: %v", err), info
	}
	defer cc.Close()
	// collect frames in the background: every frame must be well-formed
	var frameErr string
	var frameMu sync.Mutex
	framesDone := make(chan struct{})
	go func() {
		defer close(framesDone)
		for f := range cc.Frames {
			if f.Err != "" {
				frameMu.Lock()
				if frameErr == "" {
					frameErr = f.Err + " (" + subx.Dump(f.Payload) + ")"
				}
				frameMu.Unlock()
			}
		}
	}()
	type subState struct {
		up      *subx.UpSub
		ws      *subx.WSSub
		started bool
	}
	subs := make([]*subState, c.NSubs)
	for i := range subs {
		subs[i] = &subState{}
	}
	connEnded := false
	collectNew := func(i int) {
		if c.RealWS {
			select {
			case s := <-wsSrv.NewSub:
				subs[i].ws = s
			case <-time.After(2 * time.Second):
			case <-cc.HandlerDone:
			}
		} else {
			select {
			case s := <-up.NewSub:
				subs[i].up = s
			case <-time.After(2 * time.Second):
			case <-cc.HandlerDone:
			}
		}
	}
	for _, st := range c.Steps {
		i := st.Sub
		if i >= c.NSubs {
			i = 0
		}
		switch st.Actor + ":" + st.Kind {
		case "client:init":
			cc.SendJSON(map[string]interface{}{"type": "connection_init"})
		case "client:start":
			if !connEnded && !subs[i].started {
				subs[i].started = true
				cc.SendJSON(map[string]interface{}{"type": "start", "id": fmt.Sprintf("s%d", i), "payload": map[string]interface{}{"query": teardownOps[i%len(teardownOps)]}})
				collectNew(i)
			}
		case "client:stop":
			cc.SendJSON(map[string]interface{}{"type": "stop", "id": fmt.Sprintf("s%d", i)})
		case "client:terminate":
			cc.MarkEnding()
			cc.SendJSON(map[string]interface{}{"type": "connection_terminate"})
			connEnded = true
		case "client:wsClose":
			cc.MarkEnding()
			cc.SendClose()
			connEnded = true
		case "client:disconnect":
			cc.Close()
			connEnded = true
		case "client:malformed":
			cc.MarkEnding()
			cc.SendRaw([]byte(`{"type": "start", "id": `))
			connEnded = true
		case "client:startNoPayload":
			cc.MarkEnding()
			cc.SendJSON(map[string]interface{}{"type": "start", "id": "np"})
			connEnded = true
		case "client:unknownType":
			cc.MarkEnding()
			cc.SendJSON(map[string]interface{}{"type": "bogus"})
			connEnded = true
		case "client:invalidQuery":
			cc.MarkEnding()
			cc.SendJSON(map[string]interface{}{"type": "start", "id": "bad", "payload": map[string]interface{}{"query": "subscription { nope }"}})
			connEnded = true
		case "upstream:event":
			s := subs[i]
			val := map[string]interface{}{"humanAdded": map[string]interface{}{"id": "Human_1", "name": "ann"}, "tick": 1}
			if s.up != nil {
				select {
				case <-s.up.Closed:
				default:
					s.up.Emit(&requests.Response{Data: val}, 300*time.Millisecond)
				}
			} else if s.ws != nil {
				s.ws.Send(map[string]interface{}{"type": "data", "id": s.ws.ID, "payload": map[string]interface{}{"data": val}})
			}
		case "upstream:burst":
			// wide events back to back: the upstream reader decodes the next one while the listener still forwards the last
			s := subs[i]
			for k := 0; k < st.N; k++ {
				val := map[string]interface{}{"humanAdded": map[string]interface{}{"id": "Human_1", "name": "ann"}, "tick": k}
				for j := 0; j < 150; j++ {
					val[fmt.Sprintf("w%d_%d", k%2, j)] = j
				}
				if k%3 == 0 {
					val["pad"] = strings.Repeat("p", 6000) // a frame beyond any small-frame fast path
				}
				if s.up != nil {
					select {
					case <-s.up.Closed:
					default:
						s.up.Emit(&requests.Response{Data: val}, 300*time.Millisecond)
					}
				} else if s.ws != nil {
					s.ws.Send(map[string]interface{}{"type": "data", "id": s.ws.ID, "payload": map[string]interface{}{"data": val}})
				}
			}
		case "upstream:complete":
			s := subs[i]
			if s.up != nil {
				select {
				case <-s.up.Closed:
				default:
					s.up.Emit(nil, 300*time.Millisecond)
				}
			} else if s.ws != nil {
				s.ws.Send(map[string]interface{}{"type": "complete", "id": s.ws.ID})
			}
		case "upstream:error":
			s := subs[i]
			if s.ws != nil {
				s.ws.Send(map[string]interface{}{"type": "error", "id": s.ws.ID, "payload": []interface{}{map[string]interface{}{"message": "boom"}}})
			} else if s.up != nil {
				select {
				case <-s.up.Closed:
				default:
					s.up.Emit(&requests.Response{Errors: nil, Data: nil}, 300*time.Millisecond)
				}
			}
		case "upstream:disconnect":
			if s := subs[i]; s.ws != nil {
				s.ws.Disconnect()
			} else if s.up != nil {
				select {
				case <-s.up.Closed:
				default:
					s.up.Emit(nil, 300*time.Millisecond)
				}
			}
		}
		if st.Wait {
			settle()
		}
	}
	// end of history: the client goes away
	cc.Close()
	select {
	case <-cc.HandlerDone:
	case <-time.After(settleLimit):
		return ev.Failf("deadlock:handler", "the subscription handler did not return within 30s after the client disconnected\n%s", trunc(pebblesStacks(), 12000)), info
	}
	if cc.HandlerPanic != "" {
		return ev.Failf("panic:handler", "%s", cc.HandlerPanic), info
	}
	<-framesDone
	frameMu.Lock()
	fe := frameErr
	frameMu.Unlock()
	if fe != "" {
		return ev.Failf("frame", "the client received bytes that are not a complete well-formed message: %s", fe), info
	}
	for i, s := range subs {
		if s.up != nil && !s.up.WaitClosed(settleLimit) {
			return ev.Failf("upstream-open", "the upstream subscription of s%d was not closed within 30s after the connection ended\n%s", i, trunc(pebblesStacks(), 12000)), info
		}
		if s.ws != nil && !s.ws.WaitClosed(settleLimit) {
			return ev.Failf("upstream-open", "the upstream websocket of s%d was not closed within 30s after the connection ended\n%s", i, trunc(pebblesStacks(), 12000)), info
		}
	}
	deadline := time.Now().Add(settleLimit)
	for {
		n, which := subscriptionGoroutines()
		n -= baseline
		if n <= 0 {
			break
		}
		if time.Now().After(deadline) {
			return ev.Failf("leak:"+which, "%d goroutine(s) of the subscription machinery remain 30s after the connection ended (e.g. %s)\n%s", n, which, trunc(pebblesStacks(), 12000)), info
		}
		time.Sleep(time.Millisecond)
	}
	hs.mu.Lock()
	for i := range hs.constraints {
		if hs.satisfied[i] {
			info["constraintSatisfied"] = true
		}
	}
	if hs.satisfied[-1] {
		info["barrierMet"] = true
	}
	hs.mu.Unlock()
	return nil, info
}

// teardownFeatures classifies a history (gates of open findings).
func teardownFeatures(c *TeardownCase) []string {
	fs := map[string]bool{}
	isTeardown := func(s TStep) bool {
		return s.Actor == "client" && (s.Kind == "stop" || s.Kind == "terminate" || s.Kind == "disconnect" || s.Kind == "wsClose" || s.Kind == "malformed" || s.Kind == "startNoPayload" || s.Kind == "unknownType" || s.Kind == "invalidQuery")
	}
	started := map[int]bool{}
	active := 0
	for k, s := range c.Steps {
		if s.Actor == "client" && s.Kind == "start" && !started[s.Sub] {
			started[s.Sub] = true
			active++
		}
		if k+1 < len(c.Steps) && !s.Wait {
			n := c.Steps[k+1]
			if isTeardown(s) && n.Actor == "upstream" || s.Actor == "upstream" && isTeardown(n) {
				fs["hist.teardownRacesUpstream"] = true
			}
			if s.Actor == "upstream" && n.Actor == "upstream" && s.Kind == "event" && n.Kind == "event" && s.Sub != n.Sub {
				fs["hist.concurrentEventsOneConnection"] = true
			}
			if isTeardown(s) && isTeardown(n) {
				fs["hist.teardownRacesTeardown"] = true
			}
			if s.Actor == "upstream" && s.Kind == "event" && (n.Actor == "upstream" && n.Kind != "event") {
				fs["hist.eventRacesUpstreamEnd"] = true
			}
		}
		if s.Actor == "upstream" && s.Kind == "event" && active >= 2 {
			fs["hist.eventWithTwoActiveSubscriptions"] = true
		}
	}
	if len(c.Steps) > 0 {
		last := c.Steps[len(c.Steps)-1]
		if !last.Wait {
			fs["hist.disconnectRacesLastStep"] = true
		}
	}
	if c.RealWS {
		fs["hist.realWebsocketUpstream"] = true
	}
	for _, b := range c.Barriers {
		fs["sched.barrier:"+b] = true
	}
	if c.HeaderPauseUS > 0 {
		fs["hist.slowLink"] = true
	}
	if len(c.Constraints) > 0 {
		fs["hist.constraints"] = true
		for _, cs := range c.Constraints {
			fs["sched."+cs[0]+"<"+cs[1]] = true
		}
	}
	var r []string
	for k := range fs {
		r = append(r, k)
	}
	sort.Strings(r)
	return r
}

var c18Points = []string{"se.Close.enter", "se.Close.afterTryLock", "se.Close.afterRead", "se.Close.beforeSend", "se.Close.afterSend",
	"se.Listen.deferEnter", "se.Listen.beforeLock", "se.Listen.beforeCloseChannels", "se.Listen.closed", "se.Listen.beforeWrite", "se.Listen.afterWrite", "se.Listen.gotClose",
	"sub.Clean.beforeGoClose", "sub.handler.deferEnter", "sub.handler.beforeGoListen", "qs.closer.gotClose", "qs.reader.beforeSendNil", "qs.reader.beforeSendData"}

func genTeardownCase(t *rapid.T) *TeardownCase {
	c := &TeardownCase{NSubs: rapid.IntRange(1, 3).Draw(t, "nsubs"), RealWS: rapid.IntRange(0, 3).Draw(t, "realws") == 0}
	c.MuteClose = c.RealWS && rapid.Bool().Draw(t, "muteclose")
	c.Steps = append(c.Steps, TStep{Actor: "client", Kind: "init", Wait: true})
	n := rapid.IntRange(2, 10).Draw(t, "nsteps")
	racy := rapid.IntRange(0, 2).Draw(t, "racy") > 0
	for i := 0; i < n; i++ {
		s := TStep{Sub: rapid.IntRange(0, c.NSubs-1).Draw(t, "sub"), Wait: true}
		if racy {
			s.Wait = rapid.IntRange(0, 1).Draw(t, "wait") == 0
		}
		if rapid.IntRange(0, 9).Draw(t, "actor") < 5 {
			s.Actor = "client"
			s.Kind = rapid.SampledFrom([]string{"start", "start", "start", "stop", "stop", "terminate", "disconnect", "wsClose", "malformed", "startNoPayload", "unknownType", "invalidQuery"}).Draw(t, "ckind")
			if s.Kind == "start" {
				s.Wait = true // a start is synchronous in the harness: it waits for the upstream subscription
			}
		} else {
			s.Actor = "upstream"
			s.Kind = rapid.SampledFrom([]string{"event", "event", "event", "burst", "complete", "error", "disconnect"}).Draw(t, "ukind")
			if s.Kind == "burst" {
				s.N = rapid.IntRange(5, 60).Draw(t, "burstn")
			}
		}
		c.Steps = append(c.Steps, s)
	}
	if rapid.IntRange(0, 3).Draw(t, "slowlink") == 0 {
		c.HeaderPauseUS = rapid.IntRange(50, 500).Draw(t, "pause")
	}
	if rapid.IntRange(0, 2).Draw(t, "slowchild") == 0 {
		c.ChildDelayUS = rapid.IntRange(500, 8000).Draw(t, "childdelay")
	}
	if rapid.IntRange(0, 5).Draw(t, "dropstall") == 0 {
		c.ChildDropStall = true
	}
	if c.NSubs >= 2 && rapid.IntRange(0, 2).Draw(t, "barrier") == 0 {
		c.Barriers = []string{rapid.SampledFrom([]string{"se.Listen.beforeWrite", "se.Close.beforeSend", "se.Listen.deferEnter", "se.Listen.beforeLock"}).Draw(t, "barrierpoint")}
	}
	if c.NSubs == 1 && rapid.IntRange(0, 2).Draw(t, "directed") == 0 {
		// directed scenarios: a teardown action racing the end of the listener, with ordering constraints drawn
		// from the pairs that matter for the close / listen / upstream-reader protocol
		pairs := [][2]string{
			{"se.Close.afterRead", "se.Listen.beforeLock"}, {"se.Listen.closed", "se.Close.beforeSend"}, {"se.Listen.beforeCloseChannels", "se.Close.enter"},
			{"se.Close.enter", "se.Listen.deferEnter"}, {"se.Listen.deferEnter", "se.Close.afterRead"}, {"se.Listen.closed", "qs.reader.beforeSendData"},
			{"se.Listen.closed", "qs.reader.beforeSendNil"}, {"qs.closer.gotClose", "qs.reader.beforeSendData"}, {"sub.handler.deferEnter", "se.Listen.beforeWrite"},
			{"se.Listen.beforeWrite", "sub.handler.deferEnter"}, {"se.Close.beforeSend", "se.Listen.gotClose"}, {"se.Listen.afterWrite", "se.Close.enter"},
		}
		c.Steps = []TStep{{Actor: "client", Kind: "init", Wait: true}, {Actor: "client", Kind: "start", Wait: true}}
		tail := []TStep{
			{Actor: "client", Kind: rapid.SampledFrom([]string{"stop", "stop", "terminate", "disconnect", "wsClose", "malformed"}).Draw(t, "dteardown")},
			{Actor: "upstream", Kind: rapid.SampledFrom([]string{"complete", "event", "event", "error", "disconnect"}).Draw(t, "dupstream")},
		}
		if rapid.Bool().Draw(t, "swap") {
			tail[0], tail[1] = tail[1], tail[0]
		}
		tail[0].Wait = false
		tail[1].Wait = true
		if rapid.IntRange(0, 2).Draw(t, "pre-event") == 0 {
			c.Steps = append(c.Steps, TStep{Actor: "upstream", Kind: "event", Wait: rapid.Bool().Draw(t, "prewait")})
		}
		c.Steps = append(c.Steps, tail...)
		c.Constraints = nil
		k := rapid.IntRange(1, 2).Draw(t, "npairs")
		for i := 0; i < k; i++ {
			c.Constraints = append(c.Constraints, pairs[rapid.IntRange(0, len(pairs)-1).Draw(t, "pair")])
		}
		return c
	}
	if c.NSubs == 1 && rapid.IntRange(0, 2).Draw(t, "constrained") == 0 {
		k := rapid.IntRange(1, 3).Draw(t, "nconstraints")
		for i := 0; i < k; i++ {
			p := rapid.SampledFrom(c18Points).Draw(t, "p")
			q := rapid.SampledFrom(c18Points).Draw(t, "q")
			if p != q {
				c.Constraints = append(c.Constraints, [2]string{p, q})
			}
		}
	}
	return c
}

func TestC18(t *testing.T) {
	if !verifhook.Enabled {
		t.Fatal("C18 needs -tags verif")
	}
	rec := ev.Get("C18")
	rec.Rule = "histories of 2..10 client actions (start, stop, terminate, abrupt disconnect, websocket close frame, malformed JSON, start without payload, unknown type, invalid query) and upstream actions (event, burst of 5..60 wide events some beyond 6 KB, complete, error, disconnect) over 1..3 subscriptions on one connection (harness-owned net.Pipe), each step either followed by a settle pause or racing with the next one; a heartbeat test with three concurrently delivering subscriptions, 6 KB frames and a client that pings every 3 ms; child requests optionally slow, or the first one losing its connection and later ones never answered (released only by the end of the request context); upstream scripted in process (75%) or a real graphql-ws server behind the real MultiOpQueryer.Subscribe (25%); for single-subscription cases 1..3 drawn ordering constraints 'hook point P before hook point Q' over 18 verif hook points, enforced by parking the goroutine that reaches Q first (bounded). Oracle: process alive, handler returns (30s limit) after the final client disconnect, every byte sequence received parses as complete RFC 6455 frames carrying JSON messages, every upstream subscription/connection observed closed and no goroutine of Listen/Close/Subscribe/heartbeat/handler left (30s limit). non-trivial = a teardown action racing an upstream action, or a satisfied ordering constraint; distinct by hash(case)"
	defer census.dump("C18")
	rapid.Check(t, func(t *rapid.T) {
		c := genTeardownCase(t)
		feats := teardownFeatures(c)
		for _, f := range feats {
			if gateClosed(f) {
				rec.Exclude(f)
				return
			}
		}
		ev.Current("C18", c)
		f, info := checkC18(c)
		nt := info["constraintSatisfied"] || info["barrierMet"]
		for _, ft := range feats {
			if ft == "hist.teardownRacesUpstream" {
				nt = true
			}
		}
		labels := append([]string{}, feats...)
		var kept []string
		for _, l := range labels {
			if !strings.HasPrefix(l, "sched.") {
				kept = append(kept, l)
			}
		}
		if info["constraintSatisfied"] {
			kept = append(kept, "constraintSatisfied")
		}
		if info["barrierMet"] {
			kept = append(kept, "barrierMet")
		}
		for _, l := range labels {
			if strings.HasPrefix(l, "sched.barrier:") {
				kept = append(kept, l)
			}
		}
		rec.Case(ev.Hash(c), nt, kept...)
		rec.Sample(nt, func() interface{} { return c })
		if f != nil {
			if isCensus() {
				census.add(f.Signature, fmt.Sprint(feats)+" "+jsonOf(c)+" ## "+trunc(f.Message, 300))
				return
			}
			if only := onlySig(); only != "" && !strings.HasPrefix(f.Signature, only) {
				return
			}
			ev.WriteFail("C18", c, f)
			t.Fatalf("%v", f)
		}
	})
}

func init() {
	replayers["C18"] = func(path string) (*ev.Failure, error) {
		var c TeardownCase
		if _, _, err := ev.LoadCase(path, &c); err != nil {
			return nil, err
		}
		if c.NSubs < 1 {
			c.NSubs = 1
		}
		f, _ := checkC18(&c)
		return f, nil
	}
}

// TestC18Heartbeat keeps subscriptions delivering over a slow link across the 4 s heartbeat tick: the keep-alive
// frame must not cut into a data frame (and everything must still be torn down afterwards).
func TestC18Heartbeat(t *testing.T) {
	if !verifhook.Enabled {
		t.Fatal("C18 needs -tags verif")
	}
	rec := ev.Get("C18")
	conns := 3
	if ev.Thorough() {
		conns = 8
	}
	var wg sync.WaitGroup
	fails := make(chan *ev.Failure, conns)
	for k := 0; k < conns; k++ {
		wg.Add(1)
		go func(k int) {
			defer wg.Done()
			w := teardownWorld()
			net, _ := fake.NewNet(w)
			up := subx.NewUpstream(net)
			gw, err := gwx.BuildWithFactory(w, net, gwx.Config{}, up.Factory())
			if err != nil {
				fails <- ev.Failf("harness", "%v", err)
				return
			}
			// a writer is descheduled for 20-40 ms between frame header and payload: most of the time a frame is half written
			cc, err := subx.ConnectPausing(gw, time.Duration(20+10*k%3)*time.Millisecond)
			if err != nil {
				fails <- ev.Failf("harness", "%v", err)
				return
			}
			defer cc.Close()
			cc.SendJSON(map[string]interface{}{"type": "connection_init"})
			// every second connection carries three subscriptions that deliver large frames at the same time: several
			// writers queue for the connection while one of them is parked between header and payload
			nsub := 1
			if k%2 == 1 {
				nsub = 3
			}
			var hsubs []*subx.UpSub
			for i := 0; i < nsub; i++ {
				cc.SendJSON(map[string]interface{}{"type": "start", "id": fmt.Sprintf("h%d", i+1), "payload": map[string]interface{}{"query": teardownOps[1]}})
				select {
				case sub := <-up.NewSub:
					hsubs = append(hsubs, sub)
				case <-time.After(3 * time.Second):
					fails <- ev.Failf("harness", "subscription not started")
					return
				}
			}
			sub := hsubs[0]
			stop := time.After(4700 * time.Millisecond)
			var frameErr string
			kas, datas := 0, 0
			done := make(chan struct{})
			go func() {
				defer close(done)
				for f := range cc.Frames {
					if f.Err != "" && frameErr == "" {
						frameErr = f.Err + " (" + subx.Dump(f.Payload) + ")"
					}
					if f.Msg != nil && f.Msg["type"] == "ka" {
						kas++
					}
					if f.Msg != nil && f.Msg["type"] == "data" {
						datas++
					}
				}
			}()
			stopOthers := make(chan struct{})
			var others sync.WaitGroup
			// the client pings all the time: the pongs are written by the connection's reader, next to the listeners
			others.Add(1)
			go func() {
				defer others.Done()
				for {
					select {
					case <-stopOthers:
						return
					case <-time.After(3 * time.Millisecond):
						cc.SendPing()
					}
				}
			}()
			for _, o := range hsubs[1:] {
				others.Add(1)
				go func(o *subx.UpSub) {
					defer others.Done()
					for {
						select {
						case <-stopOthers:
							return
						default:
							o.Emit(&requests.Response{Data: map[string]interface{}{"tick": 2, "pad": strings.Repeat("q", 6000)}}, time.Second)
						}
					}
				}(o)
			}
		loop:
			for {
				select {
				case <-stop:
					break loop
				default:
					data := map[string]interface{}{"tick": 1}
					if k%2 == 1 {
						data["pad"] = strings.Repeat("p", 6000) // large frames on every second connection
					}
					sub.Emit(&requests.Response{Data: data}, time.Second)
				}
			}
			close(stopOthers)
			others.Wait()
			cc.Close()
			<-done
			<-cc.HandlerDone
			rec.Case(ev.Hash("heartbeat", k), true, "heartbeatCase")
			rec.AddExtra("heartbeat_frames_seen", kas)
			rec.AddExtra("data_frames_during_heartbeat_cases", datas)
			if frameErr != "" {
				fails <- ev.Failf("frame", "a frame was corrupted around the heartbeat: %s", frameErr)
				return
			}
			if !sub.WaitClosed(settleLimit) {
				fails <- ev.Failf("upstream-open", "upstream not closed after the heartbeat case")
			}
		}(k)
	}
	wg.Wait()
	close(fails)
	for f := range fails {
		c := &TeardownCase{NSubs: 1, HeaderPauseUS: 30000, Steps: []TStep{{Actor: "client", Kind: "init", Wait: true}, {Actor: "client", Kind: "start", Wait: true}}}
		ev.WriteFail("C18", map[string]interface{}{"heartbeat_case": true, "case": c}, f)
		t.Fatalf("%v", f)
	}
}
