package props

import (
	"bytes"
	"encoding/json"
	"fmt"
	"os"
	"strings"
	"testing"

	"github.com/vektah/gqlparser/v2"
	"github.com/vektah/gqlparser/v2/ast"
	gqlformatter "github.com/vektah/gqlparser/v2/formatter"
	"pgregory.net/rapid"

	"verif/harness/ev"
)

func TestDbgInvalidOps(t *testing.T) {
	if os.Getenv("VERIF_DUMP") == "" {
		t.Skip()
	}
	counts := map[string]int{}
	shown := 0
	rapid.Check(t, func(t *rapid.T) {
		c, _ := genExecCase(t, ev.Get("X"), ast.Query)
		if c == nil {
			return
		}
		union, _ := c.World.UnionSchema()
		_, errs := gqlparser.LoadQuery(union, c.Op.Query)
		if errs != nil {
			counts[errs[0].Rule]++
			if shown < 8 {
				shown++
				fmt.Println("INVALID:", errs[0].Rule, errs[0].Message, "\n   ", c.Op.Query)
			}
		} else {
			counts["ok"]++
		}
	})
	fmt.Println(counts)
}

func TestDbgPlan(t *testing.T) {
	path := os.Getenv("VERIF_PLAN")
	if path == "" {
		t.Skip()
	}
	var c ExecCase
	if _, _, err := ev.LoadCase(path, &c); err != nil {
		t.Fatal(err)
	}
	steps, err := planFor(&c)
	if err != nil {
		t.Fatal(err)
	}
	fmt.Println(steps)
}

func TestDbgFeatures(t *testing.T) {
	path := os.Getenv("VERIF_PLAN")
	if path == "" {
		t.Skip()
	}
	var c ExecCase
	if _, _, err := ev.LoadCase(path, &c); err != nil {
		t.Fatal(err)
	}
	fmt.Println(caseFeatures(&c).List())
}

// TestDbgAvoidLeaks prints generated operations that carry a feature class the generator was told to avoid (VERIF_DUMP=<class>).
func TestDbgAvoidLeaks(t *testing.T) {
	cls := os.Getenv("VERIF_DUMP")
	if cls == "" {
		t.Skip()
	}
	n := 0
	rapid.Check(t, func(t *rapid.T) {
		c, _ := genExecCase(t, ev.Get("DBG"), ast.Query)
		if c == nil || n >= 6 {
			return
		}
		if caseFeatures(c)[cls] && len(c.Op.Query) < 260 {
			n++
			fmt.Println("LEAK:", c.Op.Query)
		}
	})
}

// TestDbgShrinkExec greedily shrinks the operation of an exec case file (VERIF_PLAN) while checkC01 keeps failing with a
// signature that starts with VERIF_DUMP (default "data-mismatch"); the result is written next to the input as *.min.json.
func TestDbgShrinkExec(t *testing.T) {
	path := os.Getenv("VERIF_PLAN")
	if path == "" {
		t.Skip()
	}
	want := os.Getenv("VERIF_DUMP")
	if want == "" {
		want = "data-mismatch"
	}
	var c ExecCase
	if _, _, err := ev.LoadCase(path, &c); err != nil {
		t.Fatal(err)
	}
	union, err := c.World.UnionSchema()
	if err != nil {
		t.Fatal(err)
	}
	fails := func(q string) bool {
		cc := c
		cc.Op.Query = q
		if closedGateIn(caseFeatures(&cc)) != "" {
			return false // stays outside the classes of open findings ($VERIF_GATES)
		}
		f, out := checkC01(&cc)
		return f != nil && (out == nil || out.Skip == "") && strings.HasPrefix(f.Signature, want)
	}
	if !fails(c.Op.Query) {
		t.Fatalf("the case does not fail with %s", want)
	}
	render := func(doc *ast.QueryDocument) string {
		// drop unused variables and fragments so that the edited document stays valid
		var buf bytes.Buffer
		gqlformatter.NewFormatter(&buf).FormatQueryDocument(doc)
		s := buf.String()
		for _, o := range doc.Operations {
			var keep ast.VariableDefinitionList
			for _, vd := range o.VariableDefinitions {
				if strings.Count(s, "$"+vd.Variable) > 1 {
					keep = append(keep, vd)
				}
			}
			o.VariableDefinitions = keep
		}
		var frs ast.FragmentDefinitionList
		for _, fd := range doc.Fragments {
			if strings.Contains(s, "..."+fd.Name) || strings.Contains(s, "... "+fd.Name) {
				frs = append(frs, fd)
			}
		}
		doc.Fragments = frs
		buf.Reset()
		gqlformatter.NewFormatter(&buf).FormatQueryDocument(doc)
		return buf.String()
	}
	cur := c.Op.Query
	for round := 0; round < 50; round++ {
		progress := false
		// count deletable positions on a fresh parse, then try each
		doc, errs := gqlparser.LoadQuery(union, cur)
		if errs != nil {
			t.Fatalf("current query invalid: %v", errs)
		}
		var count func(ss ast.SelectionSet) int
		count = func(ss ast.SelectionSet) int {
			n := 0
			for _, sel := range ss {
				n++
				switch x := sel.(type) {
				case *ast.Field:
					n += count(x.SelectionSet)
				case *ast.InlineFragment:
					n += count(x.SelectionSet)
				}
			}
			return n
		}
		total := 0
		for _, o := range doc.Operations {
			total += count(o.SelectionSet)
		}
		for _, fd := range doc.Fragments {
			total += count(fd.SelectionSet)
		}
		for idx := total - 1; idx >= 0; idx-- {
			d2, errs := gqlparser.LoadQuery(union, cur)
			if errs != nil {
				break
			}
			k := 0
			var del func(ss ast.SelectionSet) (ast.SelectionSet, bool)
			del = func(ss ast.SelectionSet) (ast.SelectionSet, bool) {
				for i, sel := range ss {
					if k == idx {
						k++
						if len(ss) == 1 {
							return ss, false
						}
						return append(append(ast.SelectionSet{}, ss[:i]...), ss[i+1:]...), true
					}
					k++
					switch x := sel.(type) {
					case *ast.Field:
						if ns, ok := del(x.SelectionSet); ok {
							x.SelectionSet = ns
							return ss, true
						}
					case *ast.InlineFragment:
						if ns, ok := del(x.SelectionSet); ok {
							x.SelectionSet = ns
							return ss, true
						}
					}
				}
				return ss, false
			}
			done := false
			for _, o := range d2.Operations {
				if ns, ok := del(o.SelectionSet); ok {
					o.SelectionSet = ns
					done = true
					break
				}
			}
			if !done {
				for _, fd := range d2.Fragments {
					if ns, ok := del(fd.SelectionSet); ok {
						fd.SelectionSet = ns
						done = true
						break
					}
				}
			}
			if !done {
				continue
			}
			q := render(d2)
			if _, errs := gqlparser.LoadQuery(union, q); errs != nil {
				continue
			}
			if fails(q) {
				cur = q
				progress = true
			}
		}
		if !progress {
			break
		}
	}
	c.Op.Query = cur
	fmt.Println("MIN:", strings.Join(strings.Fields(cur), " "))
	b, _ := json.MarshalIndent(map[string]interface{}{"property": "C01", "signature": want, "case": c}, "", " ")
	os.WriteFile(strings.TrimSuffix(path, ".json")+".min.json", b, 0o644)
}

// TestDbgRepeat posts the operation of an exec case (VERIF_PLAN) 40 times to fresh gateways and prints the distinct raw answers.
func TestDbgRepeat(t *testing.T) {
	path := os.Getenv("VERIF_PLAN")
	if path == "" {
		t.Skip()
	}
	var c ExecCase
	if _, _, err := ev.LoadCase(path, &c); err != nil {
		t.Fatal(err)
	}
	seen := map[string]int{}
	for i := 0; i < 40; i++ {
		out, f := runExec(&c)
		if f != nil {
			seen["FAIL "+f.Signature]++
			continue
		}
		seen[string(out.Raw.Body)]++
	}
	for k, v := range seen {
		fmt.Printf("%3d x %s\n", v, strings.TrimSpace(k))
	}
}
