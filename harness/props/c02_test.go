package props

import (
	"encoding/json"
	"fmt"
	"reflect"
	"sort"
	"strings"
	"testing"

	"github.com/buildbuildio/pebbles/planner"
	"github.com/vektah/gqlparser/v2"
	"github.com/vektah/gqlparser/v2/ast"
	"pgregory.net/rapid"

	"verif/harness/ev"
	"verif/harness/refexec"
	"verif/harness/world"
)

const internalURL = "%#!"

func walkSteps(steps []*planner.QueryPlanStep, depth int, fn func(s *planner.QueryPlanStep, depth int)) {
	for _, s := range steps {
		fn(s, depth)
		walkSteps(s.Then, depth+1, fn)
	}
}

func firstRule(errs interface{ Error() string }) string { return errs.Error() }

// checkC02 validates the translation of the client operation into sub-requests.
func checkC02(c *ExecCase) (*ev.Failure, *execOutcome, int) {
	if c.Config.Merger == "sanitize" && opUsesNodeRoot(c) {
		return nil, &execOutcome{Skip: "node-root-under-sanitize"}, 0
	}
	union, err := c.World.UnionSchema()
	if err != nil {
		return ev.Failf("harness", "%v", err), nil, 0
	}
	clientDoc, verrs := gqlparser.LoadQuery(union, c.Op.Query)
	if verrs != nil {
		return nil, &execOutcome{Skip: "op-invalid-for-union"}, 0
	}
	clientOp, err := refexec.PickOperation(clientDoc, c.Op.OperationName)
	if err != nil {
		return nil, &execOutcome{Skip: "op-selection"}, 0
	}
	schemas, err := c.World.ServiceSchemas()
	if err != nil {
		return ev.Failf("harness", "%v", err), nil, 0
	}
	byURL := map[string]*ast.Schema{}
	for i, s := range c.World.Services {
		byURL[s.URL] = schemas[i]
	}
	clientVars := map[string]*ast.VariableDefinition{}
	for _, vd := range clientOp.VariableDefinitions {
		clientVars[vd.Variable] = vd
	}

	// ---- static: the plan returned by the planner
	plan, _, perr := planOf(c)
	if perr != nil {
		return ev.Failf("plan-error", "planner failed on a valid operation: %v", perr), nil, 0
	}
	nsteps := 0
	var fail *ev.Failure
	walkSteps(plan.RootSteps, 0, func(s *planner.QueryPlanStep, depth int) {
		nsteps++
		if fail != nil {
			return
		}
		if s.URL == internalURL {
			// introspection fields and the root __typename are answered locally; anything else must not be routed here
			for _, f := range flatFieldNames(s.SelectionSet) {
				if f != "__schema" && f != "__type" && f != "__typename" {
					fail = ev.Failf("wrong-service:internal", "field %q is routed to the internal pseudo service", f)
				}
			}
			return
		}
		sc := byURL[s.URL]
		if sc == nil {
			fail = ev.Failf("wrong-service:unknown-url", "step routed to unknown url %q", s.URL)
			return
		}
		doc, errs := gqlparser.LoadQuery(sc, s.QueryString)
		if errs != nil {
			rule := errs[0].Rule
			if rule == "" {
				rule = "parse"
			}
			fail = ev.Failf("validate:"+rule, "sub-request for %s is not valid there: %v\n%s", s.URL, errs, s.QueryString)
			return
		}
		if len(doc.Operations) != 1 {
			fail = ev.Failf("parse", "sub-request has %d operations", len(doc.Operations))
			return
		}
		sub := doc.Operations[0]
		isRoot := len(s.InsertionPoint) == 0
		if isRoot {
			if sub.Operation != clientOp.Operation {
				fail = ev.Failf("optype", "root step is a %s, client operation is a %s", sub.Operation, clientOp.Operation)
				return
			}
			if (clientOp.Name != "") != (sub.Name != "") || (s.OperationName != nil) != (clientOp.Name != "") {
				fail = ev.Failf("opname", "client operation name %q, sub-request name %q, sent operationName %v", clientOp.Name, sub.Name, s.OperationName)
				return
			}
		} else if sub.Operation != ast.Query {
			fail = ev.Failf("optype", "child step is a %s", sub.Operation)
			return
		}
		for _, vd := range sub.VariableDefinitions {
			if vd.Variable == "id" && !isRoot {
				continue
			}
			cv := clientVars[vd.Variable]
			if cv == nil {
				fail = ev.Failf("var-value:invented", "sub-request declares $%s which the client operation does not have", vd.Variable)
				return
			}
			listed := false
			for _, v := range s.VariablesList {
				if v == vd.Variable {
					listed = true
				}
			}
			if !listed {
				fail = ev.Failf("var-value:missing", "sub-request uses $%s but the step's VariablesList %v does not forward it", vd.Variable, s.VariablesList)
				return
			}
			if _, supplied := c.Op.Variables[vd.Variable]; !supplied && cv.DefaultValue != nil {
				// the default travels either as a declaration of the sub-request or as a value of the step (checked at the service below)
				_, asValue := s.VariableDefaults[vd.Variable]
				if !asValue && (vd.DefaultValue == nil || vd.DefaultValue.String() != cv.DefaultValue.String()) {
					fail = ev.Failf("var-value:default-lost", "client declares $%s with default %s and supplies no value; the sub-request declares default %v and the step carries no value for it", vd.Variable, cv.DefaultValue.String(), vd.DefaultValue)
					return
				}
			}
		}
	})
	if fail != nil {
		return fail, nil, nsteps
	}

	// ---- dynamic: what the fakes receive when every step fires (saturated store)
	out, f := runExec(c)
	if f != nil {
		return f, out, nsteps
	}
	if out.Skip != "" {
		return nil, out, nsteps
	}
	got := map[string]bool{}
	for _, r := range out.Log {
		if len(r.Invalid) > 0 {
			return ev.Failf("validate:received:"+strings.SplitN(r.Invalid[0], ":", 2)[0], "service %s received a request it rejects: %v\n%s\nvariables %s", r.Service, r.Invalid, r.Query, jsonOf(r.Variables)), out, nsteps
		}
		sc := byURL[r.Service]
		doc, errs := gqlparser.LoadQuery(sc, r.Query)
		if errs != nil {
			return ev.Failf("validate:received", "%v", errs), out, nsteps
		}
		sub, perr := refexec.PickOperation(doc, r.OperationName)
		if perr != nil {
			return ev.Failf("opname", "service %s cannot pick the operation: %v", r.Service, perr), out, nsteps
		}
		// a child request is { node(id: $id) { ... } } with the gateway's own $id; a client's node(id:) root field
		// carries a literal or one of the client's variables (ambiguous only if the client calls its variable id too)
		isChild := len(sub.SelectionSet) == 1 && isNodeSelection(sub.SelectionSet[0]) && clientOp.Operation != ast.Subscription &&
			(!clientSelectsNodeRoot(clientOp) || nodeArgIsIDVariable(sub.SelectionSet[0]) && !nodeRootWithIDVariable(clientOp))
		if isChild && sub.Operation != ast.Query {
			return ev.Failf("optype", "child request is a %s", sub.Operation), out, nsteps
		}
		for _, vd := range sub.VariableDefinitions {
			val, has := r.Variables[vd.Variable]
			if vd.Variable == "id" && isChild {
				id, _ := val.(string)
				if _, ok := c.World.Store.Entities[id]; !ok {
					return ev.Failf("var-value:id", "child request carries id %v which is no entity id", val), out, nsteps
				}
				continue
			}
			cv := clientVars[vd.Variable]
			if cv == nil {
				continue
			}
			if want, supplied := c.Op.Variables[vd.Variable]; supplied {
				if !has || !reflect.DeepEqual(refexec.Normalize(want), refexec.Normalize(val)) {
					return ev.Failf("var-value:overwritten", "client value of $%s is %s, service %s received %s (present=%v)", vd.Variable, jsonOf(want), r.Service, jsonOf(val), has), out, nsteps
				}
			} else if cv.DefaultValue != nil {
				okDefault := vd.DefaultValue != nil && vd.DefaultValue.String() == cv.DefaultValue.String()
				if !okDefault && has {
					dv, derr := cv.DefaultValue.Value(nil)
					okDefault = derr == nil && reflect.DeepEqual(refexec.Normalize(refexec.FixNilLists(dv)), refexec.Normalize(val))
				}
				if !okDefault {
					return ev.Failf("var-value:default-lost", "client default %s of $%s reaches service %s neither as declaration nor as value", cv.DefaultValue.String(), vd.Variable, r.Service), out, nsteps
				}
			}
		}
		for k := range r.TouchedArgs {
			got[k] = true
		}
	}
	// coverage: every field instance the reference resolves is resolved by some service
	want := out.RefRes.TouchedArgs
	wk := make([]string, 0, len(want))
	for k := range want {
		wk = append(wk, k)
	}
	sort.Strings(wk)
	for _, k := range wk {
		if strings.HasPrefix(k, "Query.node(") {
			continue
		}
		if !got[k] {
			return ev.Failf("coverage:dropped", "client-selected field instance %s is resolved by no service (saturated data)", k), out, nsteps
		}
	}
	gk := make([]string, 0, len(got))
	for k := range got {
		gk = append(gk, k)
	}
	sort.Strings(gk)
	for _, k := range gk {
		if want[k] > 0 {
			continue
		}
		name := k[strings.Index(k, ".")+1 : strings.Index(k, "(")]
		if name == "id" || name == "node" {
			continue
		}
		return ev.Failf("extra:not-helper", "services resolve %s which the client did not select", k), out, nsteps
	}
	// helpers are removed again
	if len(out.Observed.Errors) == 0 {
		exp := refexec.Prune(cloneJSON(out.Expected))
		obs := refexec.Prune(cloneJSON(out.Observed.Data))
		if cls, msg := refexec.Diff(exp, obs, "data"); cls == "extra-key" {
			return ev.Failf("extra:not-scrubbed", "%s", msg), out, nsteps
		}
	}
	return nil, out, nsteps
}

func isNodeSelection(sel ast.Selection) bool {
	f, ok := sel.(*ast.Field)
	return ok && f.Name == "node"
}

func nodeArgIsIDVariable(sel ast.Selection) bool {
	f, ok := sel.(*ast.Field)
	if !ok {
		return false
	}
	a := f.Arguments.ForName("id")
	return a != nil && a.Value != nil && a.Value.Kind == ast.Variable && a.Value.Raw == "id"
}

// nodeRootWithIDVariable: the client itself writes node(id: $id) at the root.
func nodeRootWithIDVariable(op *ast.OperationDefinition) bool {
	var walk func(ss ast.SelectionSet, depth int) bool
	walk = func(ss ast.SelectionSet, depth int) bool {
		for _, sel := range ss {
			switch x := sel.(type) {
			case *ast.Field:
				if x.Name == "node" && nodeArgIsIDVariable(x) {
					return true
				}
			case *ast.InlineFragment:
				if depth < 6 && walk(x.SelectionSet, depth+1) {
					return true
				}
			case *ast.FragmentSpread:
				if x.Definition != nil && depth < 6 && walk(x.Definition.SelectionSet, depth+1) {
					return true
				}
			}
		}
		return false
	}
	return walk(op.SelectionSet, 0)
}

func clientSelectsNodeRoot(op *ast.OperationDefinition) bool {
	return selectionUsesField(op.SelectionSet, "node", map[string]bool{})
}

func flatFieldNames(ss ast.SelectionSet) []string {
	var r []string
	for _, s := range ss {
		switch x := s.(type) {
		case *ast.Field:
			r = append(r, x.Name)
		case *ast.InlineFragment:
			r = append(r, flatFieldNames(x.SelectionSet)...)
		}
	}
	return r
}

func genExecCaseSaturated(t *rapid.T, rec *ev.Recorder, opType ast.Operation) (*ExecCase, *world.Model) {
	c, m := genExecCaseOpt(t, rec, opType, true)
	return c, m
}

func TestC02(t *testing.T) {
	rec := ev.Get("C02")
	rec.Rule = "world x operation (as C01) with a saturated store (every reference non-null, every list holding one entity of every concrete type) so that every plan step fires; oracle: every plan step and every request a fake receives validates against the target service's own schema (full gqlparser rule set), operation keyword/name rules, client variable values/defaults forwarded, every field instance resolved by the reference is resolved by a service, extras only id/node, helpers scrubbed; non-trivial = plan with >=2 steps; distinct by hash(world, op)"
	defer census.dump("C02")
	rapid.Check(t, func(t *rapid.T) {
		opType := ast.Query
		if rapid.IntRange(0, 4).Draw(t, "mutation") == 0 {
			opType = ast.Mutation
		}
		c, _ := genExecCaseSaturated(t, rec, opType)
		if c == nil {
			rec.Class("skip:no-operation", 1)
			return
		}
		fs := caseFeatures(c)
		if g := closedGateIn(fs); g != "" {
			rec.Exclude(g)
			return
		}
		ev.Current("C02", c)
		f, out, nsteps := checkC02(c)
		if out != nil && out.Skip != "" {
			rec.Class("skip:"+strings.SplitN(out.Skip, ":", 2)[0], 1)
			return
		}
		nt := nsteps >= 2
		labels := fs.List()
		labels = append(labels, fmt.Sprintf("steps=%d", minInt(nsteps, 6)))
		rec.Case(ev.Hash(c.World.Services, c.Op), nt, labels...)
		rec.Sample(nt, func() interface{} {
			p, _ := planFor(c)
			return map[string]interface{}{"services": c.World.Services, "op": c.Op, "plan": strings.Split(p, "\n")}
		})
		if f != nil {
			if isCensus() {
				census.add(f.Signature, c.Op.Query+"  ## "+trunc(f.Message, 400))
				return
			}
			if only := onlySig(); only != "" && !strings.HasPrefix(f.Signature, only) {
				return
			}
			ev.WriteFail("C02", c, f)
			t.Fatalf("%v", f)
		}
	})
}

func minInt(a, b int) int {
	if a < b {
		return a
	}
	return b
}

func init() {
	replayers["C02"] = func(path string) (*ev.Failure, error) {
		var c ExecCase
		if _, _, err := ev.LoadCase(path, &c); err != nil {
			return nil, err
		}
		f, out, _ := checkC02(&c)
		if f == nil && out != nil && out.Skip != "" {
			return nil, fmt.Errorf("replay case is outside the domain: %s", out.Skip)
		}
		return f, nil
	}
	_ = json.Marshal
}
