// Package refexec is a plain, sequential reference implementation of GraphQL
// execution over a world.Store. It is used as the oracle (union schema, whole
// store) and as the engine of the fake services (service schema, same store).
package refexec

import (
	"encoding/json"
	"fmt"
	"hash/fnv"
	"sort"
	"strconv"
	"sync/atomic"

	"github.com/vektah/gqlparser/v2"
	"github.com/vektah/gqlparser/v2/ast"
	"github.com/vektah/gqlparser/v2/gqlerror"
	"github.com/vektah/gqlparser/v2/validator"

	"verif/harness/world"
)

type Result struct {
	Data   map[string]interface{}
	Errors []string
	// Touched lists "Type.field" for every field resolved on a concrete object (used for labels)
	Touched map[string]int
	// TouchedArgs lists "Type.field(args)" with the coerced arguments
	TouchedArgs map[string]int
	// Stats
	NullRefs, DupInList int
}

type Executor struct {
	Schema *ast.Schema
	Store  *world.Store
	// RootOverride, if set, supplies root field values instead of Store.Roots (subscription events)
	RootOverride map[string]interface{}
	// Meta, if set, answers the introspection root fields (__schema, __type); key is the response key
	Meta func(field *ast.Field, subs ast.SelectionSet, vars map[string]interface{}) interface{}
}

// Parse parses and validates a document against the executor's schema.
func (e *Executor) Parse(query string) (*ast.QueryDocument, gqlerror.List) {
	return gqlparser.LoadQuery(e.Schema, query)
}

func PickOperation(doc *ast.QueryDocument, opName *string) (*ast.OperationDefinition, error) {
	if opName != nil && *opName != "" {
		op := doc.Operations.ForName(*opName)
		if op == nil {
			return nil, fmt.Errorf("unknown operation %q", *opName)
		}
		return op, nil
	}
	if len(doc.Operations) == 1 {
		return doc.Operations[0], nil
	}
	return nil, fmt.Errorf("operation name required")
}

type execCtx struct {
	e    *Executor
	vars map[string]interface{}
	res  *Result
}

// Execute runs the operation. vars are raw JSON-decoded client variables.
func (e *Executor) Execute(doc *ast.QueryDocument, opName *string, vars map[string]interface{}) *Result {
	res := &Result{Touched: map[string]int{}, TouchedArgs: map[string]int{}}
	op, err := PickOperation(doc, opName)
	if err != nil {
		res.Errors = append(res.Errors, err.Error())
		return res
	}
	coerced, verr := validator.VariableValues(e.Schema, op, numericIDs(op, vars))
	if verr != nil {
		res.Errors = append(res.Errors, "variables: "+verr.Error())
		return res
	}
	c := &execCtx{e: e, vars: coerced, res: res}
	var rootName string
	switch op.Operation {
	case ast.Query:
		rootName = "Query"
	case ast.Mutation:
		rootName = "Mutation"
	case ast.Subscription:
		rootName = "Subscription"
	}
	rootDef := e.Schema.Types[rootName]
	if rootDef == nil {
		res.Errors = append(res.Errors, "no root type "+rootName)
		return res
	}
	root := &object{typ: rootName, root: true}
	data, ok := c.executeSelectionSet(root, op.SelectionSet)
	if !ok {
		res.Data = nil
		return res
	}
	res.Data = data
	return res
}

// numericIDs: an ID may be given as a JSON number (the specification accepts integers for ID); gqlparser's coercion
// only takes strings and Go ints, so numbers of ID-typed variables are turned into their decimal text first.
func numericIDs(op *ast.OperationDefinition, vars map[string]interface{}) map[string]interface{} {
	var out map[string]interface{}
	for _, vd := range op.VariableDefinitions {
		if vd.Type == nil || vd.Type.Name() != "ID" {
			continue
		}
		v, ok := vars[vd.Variable]
		if !ok {
			continue
		}
		nv, changed := idText(v)
		if !changed {
			continue
		}
		if out == nil {
			out = make(map[string]interface{}, len(vars))
			for k, x := range vars {
				out[k] = x
			}
		}
		out[vd.Variable] = nv
	}
	if out == nil {
		return vars
	}
	return out
}

func idText(v interface{}) (interface{}, bool) {
	switch x := v.(type) {
	case float64:
		return strconv.FormatFloat(x, 'f', -1, 64), true
	case json.Number:
		return x.String(), true
	case []interface{}:
		changed := false
		res := make([]interface{}, len(x))
		for i, e := range x {
			var c bool
			res[i], c = idText(e)
			changed = changed || c
		}
		return res, changed
	}
	return v, false
}

type object struct {
	typ    string
	id     string
	fields map[string]interface{}
	root   bool
}

func (c *execCtx) directiveBool(d *ast.Directive) bool {
	a := d.Arguments.ForName("if")
	if a == nil {
		return false
	}
	v, err := a.Value.Value(c.vars)
	if err != nil {
		return false
	}
	b, _ := v.(bool)
	return b
}

func (c *execCtx) skipped(dl ast.DirectiveList) bool {
	if d := dl.ForName("skip"); d != nil && c.directiveBool(d) {
		return true
	}
	if d := dl.ForName("include"); d != nil && !c.directiveBool(d) {
		return true
	}
	return false
}

func (c *execCtx) typeApplies(objType, cond string) bool {
	if cond == "" || cond == objType {
		return true
	}
	for _, pt := range c.e.Schema.PossibleTypes[cond] {
		if pt.Name == objType {
			return true
		}
	}
	return false
}

type collected struct {
	key    string
	fields []*ast.Field
}

func (c *execCtx) collect(objType string, ss ast.SelectionSet, visited map[string]bool, out *[]*collected, idx map[string]*collected) {
	for _, sel := range ss {
		switch s := sel.(type) {
		case *ast.Field:
			if c.skipped(s.Directives) {
				continue
			}
			key := s.Alias
			if key == "" {
				key = s.Name
			}
			g := idx[key]
			if g == nil {
				g = &collected{key: key}
				idx[key] = g
				*out = append(*out, g)
			}
			g.fields = append(g.fields, s)
		case *ast.InlineFragment:
			if c.skipped(s.Directives) || !c.typeApplies(objType, s.TypeCondition) {
				continue
			}
			c.collect(objType, s.SelectionSet, visited, out, idx)
		case *ast.FragmentSpread:
			if c.skipped(s.Directives) || visited[s.Name] {
				continue
			}
			visited[s.Name] = true
			if s.Definition == nil || !c.typeApplies(objType, s.Definition.TypeCondition) {
				continue
			}
			c.collect(objType, s.Definition.SelectionSet, visited, out, idx)
		}
	}
}

func (c *execCtx) executeSelectionSet(obj *object, ss ast.SelectionSet) (map[string]interface{}, bool) {
	var groups []*collected
	c.collect(obj.typ, ss, map[string]bool{}, &groups, map[string]*collected{})
	result := make(map[string]interface{}, len(groups))
	def := c.e.Schema.Types[obj.typ]
	for _, g := range groups {
		f := g.fields[0]
		if f.Name == "__typename" {
			result[g.key] = obj.typ
			continue
		}
		var subs ast.SelectionSet
		for _, gf := range g.fields {
			subs = append(subs, gf.SelectionSet...)
		}
		if obj.root && c.e.Meta != nil && (f.Name == "__schema" || f.Name == "__type") {
			result[g.key] = c.e.Meta(f, subs, c.vars)
			continue
		}
		var fd *ast.FieldDefinition
		if def != nil {
			fd = def.Fields.ForName(f.Name)
		}
		if fd == nil {
			c.res.Errors = append(c.res.Errors, fmt.Sprintf("no field %s.%s", obj.typ, f.Name))
			return nil, false
		}
		c.res.Touched[obj.typ+"."+f.Name]++
		c.res.TouchedArgs[obj.typ+"."+f.Name+"("+argsKey(f.ArgumentMap(c.vars))+")"]++
		raw := c.resolve(obj, f, fd)
		v, ok := c.complete(fd.Type, raw, subs, obj.typ+"."+f.Name)
		if !ok {
			if fd.Type.NonNull {
				return nil, false
			}
			v = nil
		}
		result[g.key] = v
	}
	return result, true
}

func argsKey(m map[string]interface{}) string {
	if len(m) == 0 {
		return ""
	}
	b, _ := json.Marshal(FixNilLists(m))
	return string(b)
}

// FixNilLists: gqlparser coerces an empty list literal ([]) to a nil slice, which would be encoded as null;
// an empty list and null are different argument values
func FixNilLists(v interface{}) interface{} {
	switch x := v.(type) {
	case map[string]interface{}:
		out := make(map[string]interface{}, len(x))
		for k, vv := range x {
			out[k] = FixNilLists(vv)
		}
		return out
	case []interface{}:
		out := make([]interface{}, len(x))
		for i, vv := range x {
			out[i] = FixNilLists(vv)
		}
		return out
	}
	return v
}

func (c *execCtx) resolve(obj *object, f *ast.Field, fd *ast.FieldDefinition) interface{} {
	var raw interface{}
	args := f.ArgumentMap(c.vars)
	if obj.root {
		if obj.typ == "Query" && f.Name == "node" && isNodeField(fd) {
			id, _ := args["id"].(string)
			ent := c.e.Store.Entities[id]
			if ent == nil {
				return nil
			}
			// a service only knows entities whose type it declares as an object implementing Node
			d := c.e.Schema.Types[ent.Type]
			if d == nil || d.Kind != ast.Object {
				return nil
			}
			return id
		}
		if c.e.RootOverride != nil {
			if v, ok := c.e.RootOverride[obj.typ+"."+f.Name]; ok {
				raw = v
			} else {
				raw = c.e.Store.Roots[obj.typ+"."+f.Name]
			}
		} else {
			raw = c.e.Store.Roots[obj.typ+"."+f.Name]
		}
	} else if f.Name == "id" && obj.id != "" {
		return obj.id
	} else {
		raw = obj.fields[f.Name]
	}
	if len(fd.Arguments) > 0 {
		raw = c.perturb(raw, fd.Type, argsKey(args))
	}
	if c.e.Store != nil && fd.Type.Name() != "ID" {
		if ep := atomic.LoadInt32(&c.e.Store.Epoch); ep != 0 {
			raw = c.perturb(raw, fd.Type, fmt.Sprint("epoch", ep))
		}
	}
	return raw
}

func isNodeField(fd *ast.FieldDefinition) bool {
	return len(fd.Arguments) == 1 && fd.Arguments[0].Name == "id" && fd.Type.Name() == "Node"
}

func hashStr(s string) uint32 {
	h := fnv.New32a()
	h.Write([]byte(s))
	return h.Sum32()
}

// perturb makes the value depend on the coerced arguments so that lost/defaulted/mistyped arguments change data.
func (c *execCtx) perturb(raw interface{}, t *ast.Type, key string) interface{} {
	if raw == nil {
		return nil
	}
	h := hashStr(key)
	if t.Elem != nil {
		list, ok := raw.([]interface{})
		if !ok || len(list) == 0 {
			return raw
		}
		def := c.e.Schema.Types[t.Name()]
		if def != nil && (def.Kind == ast.Object || def.Kind == ast.Interface || def.Kind == ast.Union) {
			// rotate
			k := int(h % uint32(len(list)))
			res := make([]interface{}, 0, len(list))
			res = append(res, list[k:]...)
			res = append(res, list[:k]...)
			return res
		}
		res := make([]interface{}, len(list))
		for i, v := range list {
			res[i] = c.perturb(v, t.Elem, key)
		}
		return res
	}
	def := c.e.Schema.Types[t.Name()]
	if def == nil {
		return raw
	}
	switch def.Kind {
	case ast.Enum:
		s, _ := raw.(string)
		idx := 0
		for i, ev := range def.EnumValues {
			if ev.Name == s {
				idx = i
			}
		}
		return def.EnumValues[(idx+int(h%7))%len(def.EnumValues)].Name
	case ast.Scalar:
		switch v := raw.(type) {
		case string:
			return fmt.Sprintf("%s~%06x", v, h&0xffffff)
		case float64:
			if t.Name() == "Int" {
				return v + float64(h%997)
			}
			return v + float64(h%997)
		case bool:
			return v != (h&1 == 1)
		}
	}
	return raw
}

func (c *execCtx) complete(t *ast.Type, raw interface{}, subs ast.SelectionSet, where string) (interface{}, bool) {
	if raw == nil {
		if t.NonNull {
			c.res.Errors = append(c.res.Errors, "null for non-null "+where)
			return nil, false
		}
		return nil, true
	}
	if t.Elem != nil {
		list, ok := raw.([]interface{})
		if !ok {
			c.res.Errors = append(c.res.Errors, "expected list at "+where)
			return nil, false
		}
		seen := map[string]bool{}
		res := make([]interface{}, len(list))
		for i, it := range list {
			if s, ok := it.(string); ok {
				if seen[s] {
					c.res.DupInList++
				}
				seen[s] = true
			}
			v, ok := c.complete(t.Elem, it, subs, where)
			if !ok {
				if t.Elem.NonNull {
					return nil, false
				}
				v = nil
			}
			res[i] = v
		}
		return res, true
	}
	def := c.e.Schema.Types[t.Name()]
	if def == nil {
		c.res.Errors = append(c.res.Errors, "unknown type "+t.Name())
		return nil, false
	}
	switch def.Kind {
	case ast.Scalar, ast.Enum:
		return raw, true
	}
	// composite
	var obj *object
	switch v := raw.(type) {
	case string:
		ent := c.e.Store.Entities[v]
		if ent == nil {
			c.res.Errors = append(c.res.Errors, "dangling reference "+v)
			return nil, false
		}
		obj = &object{typ: ent.Type, id: v, fields: ent.Fields}
	case map[string]interface{}:
		tn, _ := v["__type"].(string)
		if tn == "" {
			tn = def.Name
		}
		obj = &object{typ: tn, fields: v}
	default:
		c.res.Errors = append(c.res.Errors, fmt.Sprintf("bad stored value %T at %s", raw, where))
		return nil, false
	}
	if !c.typeApplies(obj.typ, def.Name) {
		c.res.Errors = append(c.res.Errors, fmt.Sprintf("stored %s is not a %s at %s", obj.typ, def.Name, where))
		return nil, false
	}
	return c.executeSelectionSet(obj, subs)
}

// ---- comparison helpers ---------------------------------------------------------------

// Prune removes, bottom-up and to fixpoint, keys whose value is {} or a non-empty list made only of {}.
func Prune(v interface{}) interface{} {
	switch x := v.(type) {
	case map[string]interface{}:
		for k, vv := range x {
			x[k] = Prune(vv)
		}
		for k, vv := range x {
			if isEmptyish(vv) {
				delete(x, k)
			}
		}
		return x
	case []interface{}:
		for i, vv := range x {
			x[i] = Prune(vv)
		}
		return x
	}
	return v
}

func isEmptyish(v interface{}) bool {
	switch x := v.(type) {
	case map[string]interface{}:
		return len(x) == 0
	case []interface{}:
		if len(x) == 0 {
			return false
		}
		for _, it := range x {
			m, ok := it.(map[string]interface{})
			if !ok || len(m) != 0 {
				return false
			}
		}
		return true
	}
	return false
}

// Normalize round-trips through JSON so numbers and maps have canonical Go types.
func Normalize(v interface{}) interface{} {
	b, err := json.Marshal(v)
	if err != nil {
		return v
	}
	var out interface{}
	if err := json.Unmarshal(b, &out); err != nil {
		return v
	}
	return out
}

// Diff returns "" if a and b are deeply equal JSON values, else a path-qualified description and a class.
func Diff(exp, got interface{}, path string) (class, msg string) {
	switch e := exp.(type) {
	case map[string]interface{}:
		g, ok := got.(map[string]interface{})
		if !ok {
			if got == nil {
				return "null-vs-value", fmt.Sprintf("%s: expected object, got null", path)
			}
			return "wrong-value", fmt.Sprintf("%s: expected object, got %T", path, got)
		}
		keys := make([]string, 0, len(e))
		for k := range e {
			keys = append(keys, k)
		}
		sort.Strings(keys)
		for _, k := range keys {
			gv, ok := g[k]
			if !ok {
				return "missing-key", fmt.Sprintf("%s.%s: missing (expected %s)", path, k, short(e[k]))
			}
			if c, m := Diff(e[k], gv, path+"."+k); c != "" {
				return c, m
			}
		}
		gkeys := make([]string, 0, len(g))
		for k := range g {
			gkeys = append(gkeys, k)
		}
		sort.Strings(gkeys)
		for _, k := range gkeys {
			if _, ok := e[k]; !ok {
				return "extra-key", fmt.Sprintf("%s.%s: unexpected key (value %s)", path, k, short(g[k]))
			}
		}
		return "", ""
	case []interface{}:
		g, ok := got.([]interface{})
		if !ok {
			if got == nil {
				return "null-vs-value", fmt.Sprintf("%s: expected list, got null", path)
			}
			return "wrong-value", fmt.Sprintf("%s: expected list, got %T", path, got)
		}
		if len(e) != len(g) {
			return "wrong-list-length", fmt.Sprintf("%s: list length %d, expected %d", path, len(g), len(e))
		}
		for i := range e {
			if c, m := Diff(e[i], g[i], fmt.Sprintf("%s[%d]", path, i)); c != "" {
				return c, m
			}
		}
		return "", ""
	case nil:
		if got != nil {
			return "null-vs-value", fmt.Sprintf("%s: expected null, got %s", path, short(got))
		}
		return "", ""
	default:
		if got == nil {
			return "null-vs-value", fmt.Sprintf("%s: expected %s, got null", path, short(exp))
		}
		if fmt.Sprintf("%T:%v", exp, exp) != fmt.Sprintf("%T:%v", got, got) {
			return "wrong-value", fmt.Sprintf("%s: expected %s, got %s", path, short(exp), short(got))
		}
		return "", ""
	}
}

func short(v interface{}) string {
	b, _ := json.Marshal(v)
	if len(b) > 120 {
		return string(b[:120]) + "…"
	}
	return string(b)
}
