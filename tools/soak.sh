#!/bin/bash
# runs the quick tier of every registered check for several VERIF_SEED values on the current tree; any non-zero exit is reported
# usage: tools/soak.sh "2 3 4 5" ; evidence files are restored to the seed-1 state afterwards by re-running tools/run_all.sh if wanted
cd /verif; mkdir -p .scratch/soak
ids=$(python3 -c "import json; print(' '.join(c['property_id'] for c in json.load(open('MANIFEST.json'))['checks']))")
for seed in $1; do
  for id in $ids; do
    out=$(VERIF_SEED=$seed ./check $id --tier quick 2>&1); code=$?
    echo "seed=$seed $id exit=$code $(echo "$out" | tail -1)"
    if [ $code -ne 0 ]; then echo "$out" | grep -v "^KNOWN" | tail -12 > .scratch/soak/fail-$seed-$id.txt; fi
  done
done
