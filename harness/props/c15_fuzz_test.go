package props

import (
	"encoding/json"
	"fmt"
	"net/http"
	"runtime/debug"
	"testing"

	pintro "github.com/buildbuildio/pebbles/introspection"
	"github.com/buildbuildio/pebbles/queryer"
	"github.com/vektah/gqlparser/v2"
	"github.com/vektah/gqlparser/v2/ast"

	"verif/harness/ev"
	"verif/harness/introspect"
)

type rawResponder struct{ body []byte }

func (r *rawResponder) RoundTrip(req *http.Request) (*http.Response, error) {
	req.Body.Close()
	return jsonResp(200, r.body), nil
}

// RawIntrospectCase: the service answers the introspection query with these bytes as `data`.
type RawIntrospectCase struct {
	DataJSON string `json:"data_json"`
}

func checkRawIntrospect(c *RawIntrospectCase) *ev.Failure {
	body := []byte(`[{"data":` + c.DataJSON + `}]`)
	if !json.Valid(body) {
		body = []byte(c.DataJSON)
	}
	intro := &pintro.ParallelRemoteSchemaIntrospector{Factory: func(url string) queryer.Queryer {
		return queryer.NewMultiOpQueryer(url, 1).WithHTTPClient(&http.Client{Transport: &rawResponder{body: body}})
	}}
	var pan string
	var schemas []*ast.Schema
	var err error
	func() {
		defer func() {
			if r := recover(); r != nil {
				pan = fmt.Sprintf("%v\n%s", r, debug.Stack())
			}
		}()
		schemas, err = intro.IntrospectRemoteSchemas("http://raw.test/graphql")
	}()
	if pan != "" {
		return ev.Failf("panic", "IntrospectRemoteSchemas panicked: %s", trunc(pan, 1200))
	}
	if err == nil && (len(schemas) != 1 || schemas[0] == nil) {
		return ev.Failf("no-error-no-schema", "neither an error nor a schema")
	}
	return nil
}

// FuzzIntrospectionDecode: mutated introspection answers must yield an error or a schema, never a crash.
func FuzzIntrospectionDecode(f *testing.F) {
	seeds := []string{
		"type Query {\n  a(x: Int = 3, y: [String!] = [\"a\"]): [[Int!]]!\n}\nenum E {\n  A @deprecated\n  B\n}\ninput I {\n  e: E = A\n  n: I\n}\nunion U = T\ntype T implements N {\n  id: ID!\n}\ninterface N {\n  id: ID!\n}\ndirective @d(a: I = {e: B}) on FIELD\n",
		"schema {\n  query: R\n}\ntype R {\n  x: String\n}\n",
	}
	for _, sdl := range seeds {
		s, err := gqlparser.LoadSchema(&ast.Source{Input: sdl})
		if err != nil {
			f.Fatal(err)
		}
		ans := answerIntrospection(s, introspect.StandardQuery, nil, nil)
		b, _ := json.Marshal(ans["data"])
		f.Add(string(b))
	}
	for _, h := range []string{`null`, `{}`, `{"__schema":null}`, `{"__schema":{}}`, `{"__schema":{"queryType":{"name":"Query"},"types":[{"kind":"OBJECT","name":"Query","fields":[{"name":"a","type":{"kind":"NON_NULL"}}]}]}}`,
		`{"__schema":{"queryType":{"name":"Query"},"types":[{"kind":"UNION","name":"U","possibleTypes":[{"name":"Missing"}]}]}}`,
		`{"__schema":{"queryType":{"name":"Query"},"types":[{"kind":"OBJECT","name":"Query","interfaces":[{"name":"Nope"}],"fields":[]}]}}`,
		`{"__schema":{"queryType":{"name":"Query"},"types":[null],"directives":[null]}}`,
		`{"__schema":{"queryType":{"name":"Query"},"types":[{"kind":"OBJECT","name":"Query","fields":[{"name":"a","args":[{"name":"x","type":{"kind":"LIST"},"defaultValue":"{"}],"type":{"kind":"SCALAR","name":"Int"}}]}],"directives":[{"name":"d","locations":["X"],"args":[{"name":"a","type":null}]}]}}`} {
		f.Add(h)
	}
	f.Fuzz(func(t *testing.T, data string) {
		c := &RawIntrospectCase{DataJSON: data}
		ev.Current("C15", c)
		ev.Get("C15").Case(ev.Hash(data), true, "fuzz-decode")
		if fl := checkRawIntrospect(c); fl != nil {
			ev.WriteFail("C15", c, fl)
			t.Fatalf("%v", fl)
		}
	})
}
