package world

import (
	"fmt"

	"pgregory.net/rapid"
)

type StoreOptions struct {
	MaxEntities int
	MaxList     int
	NullPct     int
	HostileIDs  bool
	Saturated   bool // every reference non-null, every list holds one entity of every possible concrete type
}

func DefaultStoreOptions() StoreOptions {
	return StoreOptions{MaxEntities: 3, MaxList: 3, NullPct: 15}
}

type storeGen struct {
	t    *rapid.T
	m    *Model
	opt  StoreOptions
	st   *Store
	tok  int
	byTy map[string][]string // node type -> ids
}

// GenerateStore draws data conforming to the union schema of m.
func GenerateStore(t *rapid.T, m *Model, opt StoreOptions) *Store {
	g := &storeGen{t: t, m: m, opt: opt, st: &Store{Entities: map[string]*Entity{}, Roots: map[string]interface{}{}}, byTy: map[string][]string{}}
	for _, o := range m.Objects {
		if !o.IsNode {
			continue
		}
		n := rapid.IntRange(1, opt.MaxEntities).Draw(t, "entities")
		for i := 1; i <= n; i++ {
			id := fmt.Sprintf("%s_%d", o.Name, i)
			if opt.HostileIDs && rapid.IntRange(0, 3).Draw(t, "hostile") == 0 {
				id = fmt.Sprintf("%s_%d%s", o.Name, i, []string{"#x", ":1", " sp", ".dot", "/s"}[rapid.IntRange(0, 4).Draw(t, "hk")])
				m.Labels["hostileIDs"] = true
			}
			g.byTy[o.Name] = append(g.byTy[o.Name], id)
			g.st.Entities[id] = &Entity{Type: o.Name, Fields: map[string]interface{}{}}
		}
	}
	for _, o := range m.Objects {
		if !o.IsNode {
			continue
		}
		for _, id := range g.byTy[o.Name] {
			for _, f := range o.Fields {
				g.st.Entities[id].Fields[f.Name] = g.value(f.Type, 0)
			}
		}
	}
	for _, root := range []string{"Query", "Mutation", "Subscription"} {
		for _, f := range m.Roots[root] {
			g.st.Roots[root+"."+f.Name] = g.value(f.Type, 0)
		}
	}
	return g.st
}

func (g *storeGen) null(t TypeRef) bool {
	if t.NonNull || g.opt.Saturated {
		return false
	}
	return rapid.IntRange(0, 99).Draw(g.t, "null") < g.opt.NullPct
}

func (g *storeGen) value(t TypeRef, depth int) interface{} {
	if g.null(t) {
		return nil
	}
	if t.List {
		et := t
		et.List = false
		et.Nested = false
		et.NonNull = t.ElemNonNull
		if t.Nested {
			inner := t
			inner.Nested = false
			inner.NonNull = false
			n := rapid.IntRange(0, 2).Draw(g.t, "outer")
			res := make([]interface{}, 0, n)
			for i := 0; i < n; i++ {
				v := g.value(inner, depth)
				if v == nil {
					v = []interface{}{}
				}
				res = append(res, v)
			}
			return res
		}
		if g.opt.Saturated && et.Composite() {
			res := []interface{}{}
			for _, ct := range g.concrete(et) {
				c := et
				c.Name = ct
				c.Kind = KNode
				if o := g.m.Object(ct); o != nil && !o.IsNode {
					c.Kind = KValue
				}
				c.NonNull = true
				res = append(res, g.single(c, depth))
			}
			return res
		}
		n := rapid.IntRange(0, g.opt.MaxList).Draw(g.t, "len")
		res := make([]interface{}, 0, n)
		for i := 0; i < n; i++ {
			res = append(res, g.valueOrNull(et, depth))
		}
		return res
	}
	return g.single(t, depth)
}

func (g *storeGen) valueOrNull(t TypeRef, depth int) interface{} {
	if g.null(t) {
		return nil
	}
	return g.single(t, depth)
}

func (g *storeGen) concrete(t TypeRef) []string {
	switch t.Kind {
	case KIface:
		return g.m.Iface(t.Name).Members
	case KUnion:
		return g.m.Union(t.Name).Members
	}
	return []string{t.Name}
}

func (g *storeGen) single(t TypeRef, depth int) interface{} {
	switch t.Kind {
	case KScalar:
		g.tok++
		switch t.Name {
		case "Int":
			return float64(1000 + g.tok)
		case "Float":
			return float64(g.tok) + 0.25
		case "Boolean":
			return rapid.IntRange(0, 1).Draw(g.t, "bool") == 1
		default:
			return fmt.Sprintf("t%d", g.tok)
		}
	case KEnum:
		e := g.m.Enum(t.Name)
		return e.Values[rapid.IntRange(0, len(e.Values)-1).Draw(g.t, "enumv")]
	case KNode:
		ids := g.byTy[t.Name]
		return ids[rapid.IntRange(0, len(ids)-1).Draw(g.t, "ref")]
	case KValue:
		o := g.m.Object(t.Name)
		v := map[string]interface{}{"__type": o.Name}
		for _, f := range o.Fields {
			v[f.Name] = g.value(f.Type, depth+1)
		}
		return v
	case KIface, KUnion:
		members := g.concrete(t)
		if len(members) == 0 {
			return nil
		}
		mname := members[rapid.IntRange(0, len(members)-1).Draw(g.t, "member")]
		mt := TypeRef{Name: mname, Kind: KNode}
		if o := g.m.Object(mname); o != nil && !o.IsNode {
			mt.Kind = KValue
		}
		return g.single(mt, depth)
	}
	return nil
}

// GenerateEvents draws n further values for a root field (subscription events) over the entities of st.
func GenerateEvents(t *rapid.T, m *Model, st *Store, root, field string, n int) []interface{} {
	g := &storeGen{t: t, m: m, opt: DefaultStoreOptions(), st: st, byTy: map[string][]string{}, tok: 5000}
	ids := make([]string, 0, len(st.Entities))
	for id := range st.Entities {
		ids = append(ids, id)
	}
	sortStrings(ids)
	for _, id := range ids {
		g.byTy[st.Entities[id].Type] = append(g.byTy[st.Entities[id].Type], id)
	}
	var fd *Field
	for _, f := range m.Roots[root] {
		if f.Name == field {
			fd = f
		}
	}
	if fd == nil {
		return nil
	}
	res := make([]interface{}, n)
	for i := range res {
		res[i] = g.value(fd.Type, 0)
	}
	return res
}

func sortStrings(a []string) {
	for i := 1; i < len(a); i++ {
		for j := i; j > 0 && a[j] < a[j-1]; j-- {
			a[j], a[j-1] = a[j-1], a[j]
		}
	}
}
