package props

import (
	"strconv"
	"testing"

	"verif/harness/ev"
	"verif/harness/world"
)

// fuzzWorld is a fixed small federated world with an abstract type without members.
func fuzzWorld() *world.World {
	node := "interface Node {\n  id: ID!\n}\n"
	s0 := node + "type Human implements Node {\n  id: ID!\n  name(prefix: String = \"x\"): String!\n  friends: [Human]\n}\ninterface Ghost {\n  boo: String\n}\n" +
		"type Query {\n  node(id: ID!): Node\n  getHumans: [Human!]!\n  getGhost: Ghost\n  count(min: Int!): Int\n}\ntype Mutation {\n  saveHuman(name: String!, file: Upload): Human!\n}\nscalar Upload\n"
	s1 := node + "type Human implements Node {\n  id: ID!\n  phone: String!\n}\ntype Query {\n  node(id: ID!): Node\n  ping1: String\n}\n"
	u := node + "type Human implements Node {\n  id: ID!\n  name(prefix: String = \"x\"): String!\n  friends: [Human]\n  phone: String!\n}\ninterface Ghost {\n  boo: String\n}\n" +
		"type Query {\n  node(id: ID!): Node\n  getHumans: [Human!]!\n  getGhost: Ghost\n  count(min: Int!): Int\n  ping1: String\n}\ntype Mutation {\n  saveHuman(name: String!, file: Upload): Human!\n}\nscalar Upload\n"
	return &world.World{
		Services: []world.Service{{URL: "http://svc-0.test/graphql", SDL: s0}, {URL: "http://svc-1.test/graphql", SDL: s1}},
		UnionSDL: u,
		Store: &world.Store{
			Entities: map[string]*world.Entity{
				"Human_1": {Type: "Human", Fields: map[string]interface{}{"name": "ann", "friends": []interface{}{"Human_2", nil}, "phone": "111"}},
				"Human_2": {Type: "Human", Fields: map[string]interface{}{"name": "bob", "friends": []interface{}{}, "phone": "222"}},
			},
			Roots: map[string]interface{}{"Query.getHumans": []interface{}{"Human_1", "Human_2"}, "Query.getGhost": nil, "Query.count": float64(3), "Query.ping1": "p", "Mutation.saveHuman": "Human_1"},
		},
	}
}

var fuzzCTs = []string{"application/json", "text/plain", "", "application/json; charset=utf-8", "application/xml"}

func fuzzCheck(t *testing.T, c *HTTPCase) {
	rec := ev.Get("C07")
	ev.Current("C07", c)
	f, class := checkC07(c)
	rec.Case(ev.Hash(c.ContentType, c.BodyB64), true, "kind="+c.Kind, class)
	if f != nil {
		ev.WriteFail("C07", c, f)
		t.Fatalf("%v", f)
	}
}

// FuzzHandlerBytes: coverage-guided bytes as JSON-ish bodies under the accepted content types.
func FuzzHandlerBytes(f *testing.F) {
	for _, b := range hostileBodies {
		f.Add(uint8(0), []byte(b))
	}
	f.Add(uint8(0), []byte(`{"query":"{ getHumans { name phone friends { phone } } }"}`))
	f.Add(uint8(0), []byte(`[{"query":"query Q($p: String) { getHumans { name(prefix: $p) } }","variables":{"p":"z"},"operationName":"Q"},{"query":"{ count(min: 1) }"}]`))
	f.Add(uint8(1), []byte(`{"query":"mutation { saveHuman(name: \"x\") { id phone } }"}`))
	w := fuzzWorld()
	f.Fuzz(func(t *testing.T, ctSel uint8, body []byte) {
		c := mkHTTPCase(w, "fuzz-bytes", fuzzCTs[int(ctSel)%len(fuzzCTs)], body)
		fuzzCheck(t, c)
	})
}

// FuzzHandlerMultipart: structured multipart layout (operations text, map text, number of file parts).
func FuzzHandlerMultipart(f *testing.F) {
	ops := `{"query":"mutation($f: Upload) { saveHuman(name: \"x\", file: $f) { id } }","variables":{"f":null}}`
	f.Add(ops, `{"0":["variables.f"]}`, uint8(1), false)
	f.Add("["+ops+"]", `{"0":["0.variables.f"]}`, uint8(1), false)
	f.Add("["+ops+"]", `{"0":["9.variables.f"]}`, uint8(1), false)
	f.Add("["+ops+"]", `{"0":["0"]}`, uint8(1), false)
	f.Add(`{"query":"{ count(min: 1) }","variables":{"l":[null]}}`, `{"0":["variables.l.-1"]}`, uint8(1), false)
	f.Add(`{"query":"{ count(min: 1) }","variables":{"l":[null]}}`, `{"0":["variables.l.0"],"1":["variables.l.0"]}`, uint8(2), false)
	f.Add(ops, `{}`, uint8(0), false)
	f.Add(ops, `{"0":["variables.f"]}`, uint8(0), true)
	w := fuzzWorld()
	f.Fuzz(func(t *testing.T, opsText, mapText string, nfiles uint8, swap bool) {
		var files []mpFile
		for i := 0; i < int(nfiles%4); i++ {
			files = append(files, mpFile{Key: strconv.Itoa(i), Name: "f" + strconv.Itoa(i) + ".txt", Data: []byte("data" + strconv.Itoa(i))})
		}
		fields := [][2]string{{"operations", opsText}, {"map", mapText}}
		if swap {
			fields[0], fields[1] = fields[1], fields[0]
		}
		body, ct := buildMultipart(fields, files)
		c := mkHTTPCase(w, "fuzz-multipart", ct, body)
		fuzzCheck(t, c)
	})
}
