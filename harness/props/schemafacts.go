package props

import (
	"bytes"
	"sort"
	"strings"

	"github.com/vektah/gqlparser/v2/ast"
	"github.com/vektah/gqlparser/v2/formatter"
)

var builtinTypes = map[string]bool{"Int": true, "Float": true, "String": true, "Boolean": true, "ID": true}
var builtinDirectives = map[string]bool{"include": true, "skip": true, "deprecated": true, "specifiedBy": true}

type factOpts struct {
	Descriptions bool
	Deprecations bool
	SkipNodeRoot bool // ignore Query.node (node-hiding merger)
	Roots        bool
}

func valueStr(v *ast.Value) string {
	if v == nil {
		return "<none>"
	}
	return v.String()
}

// schemaFacts flattens a schema into a set of comparable facts (prelude excluded).
func schemaFacts(s *ast.Schema, o factOpts) map[string]bool {
	f := map[string]bool{}
	for name, d := range s.Types {
		if strings.HasPrefix(name, "__") || builtinTypes[name] {
			continue
		}
		f["type:"+name+":"+string(d.Kind)] = true
		if o.Descriptions && d.Description != "" {
			f["desc:"+name+":"+d.Description] = true
		}
		for _, in := range d.Interfaces {
			f["implements:"+name+":"+in] = true
		}
		for _, m := range d.Types {
			f["member:"+name+"|"+m] = true
		}
		for _, ev := range d.EnumValues {
			f["enum:"+name+"."+ev.Name] = true
			if o.Descriptions && ev.Description != "" {
				f["desc:"+name+"."+ev.Name+":"+ev.Description] = true
			}
			if o.Deprecations {
				if dd := ev.Directives.ForName("deprecated"); dd != nil {
					f["deprecated:"+name+"."+ev.Name+":"+depReason(dd)] = true
				}
			}
		}
		for _, fd := range d.Fields {
			if strings.HasPrefix(fd.Name, "__") {
				continue
			}
			if o.SkipNodeRoot && name == "Query" && fd.Name == "node" {
				continue
			}
			kind := "field:"
			if d.Kind == ast.InputObject {
				kind = "inputfield:"
				f[kind+name+"."+fd.Name+":"+fd.Type.String()+"="+valueStr(fd.DefaultValue)] = true
			} else {
				f[kind+name+"."+fd.Name+":"+fd.Type.String()] = true
			}
			if o.Descriptions && fd.Description != "" {
				f["desc:"+name+"."+fd.Name+":"+fd.Description] = true
			}
			if o.Deprecations {
				if dd := fd.Directives.ForName("deprecated"); dd != nil {
					f["deprecated:"+name+"."+fd.Name+":"+depReason(dd)] = true
				}
			}
			for _, a := range fd.Arguments {
				f["arg:"+name+"."+fd.Name+"("+a.Name+"):"+a.Type.String()+"="+valueStr(a.DefaultValue)] = true
				if o.Descriptions && a.Description != "" {
					f["desc:"+name+"."+fd.Name+"("+a.Name+"):"+a.Description] = true
				}
			}
		}
	}
	for name, d := range s.Directives {
		if builtinDirectives[name] {
			continue
		}
		locs := make([]string, len(d.Locations))
		for i, l := range d.Locations {
			locs[i] = string(l)
		}
		sort.Strings(locs)
		rep := ""
		if d.IsRepeatable {
			rep = ":repeatable"
		}
		f["directive:"+name+":"+strings.Join(locs, "|")+rep] = true
		if o.Descriptions && d.Description != "" {
			f["desc:@"+name+":"+d.Description] = true
		}
		for _, a := range d.Arguments {
			f["dirarg:"+name+"("+a.Name+"):"+a.Type.String()+"="+valueStr(a.DefaultValue)] = true
		}
	}
	if o.Roots {
		if s.Query != nil {
			f["root:query:"+s.Query.Name] = true
		}
		if s.Mutation != nil {
			f["root:mutation:"+s.Mutation.Name] = true
		}
		if s.Subscription != nil {
			f["root:subscription:"+s.Subscription.Name] = true
		}
	}
	return f
}

func depReason(d *ast.Directive) string {
	if a := d.Arguments.ForName("reason"); a != nil && a.Value != nil {
		return a.Value.Raw
	}
	return "No longer supported"
}

func factKind(f string) string {
	if i := strings.Index(f, ":"); i > 0 {
		return f[:i]
	}
	return f
}

func formatSchema(s *ast.Schema) string {
	var buf bytes.Buffer
	formatter.NewFormatter(&buf).FormatSchema(s)
	return buf.String()
}

func sortedFacts(m map[string]bool) []string {
	r := make([]string, 0, len(m))
	for k := range m {
		r = append(r, k)
	}
	sort.Strings(r)
	return r
}
