package props

import (
	"encoding/json"
	"fmt"
	"runtime"
	"sort"
	"strings"
	"testing"
	"time"

	"github.com/vektah/gqlparser/v2/ast"
	"pgregory.net/rapid"

	"verif/harness/ev"
	"verif/harness/fake"
	"verif/harness/gwx"
	"verif/harness/refexec"
)

// RepeatCase: the same operation sent Repeats times to the same gateway and to Fresh freshly built gateways.
type RepeatCase struct {
	ExecCase
	Repeats  int     `json:"repeats"`
	Fresh    int     `json:"fresh"`
	DelaysUS [][]int `json:"delays_us"` // per repetition, per service: delay before the fake answers
	// Batch: if non-empty the request is this JSON array (the case's own operation first) instead of the single operation
	Batch      []gwx.GQLRequest `json:"batch,omitempty"`
	GoMaxProcs int              `json:"gomaxprocs"`
}

func strPtr(s string) *string { return &s }

func canonical(v interface{}) string {
	b, _ := json.Marshal(refexec.Normalize(v)) // encoding/json sorts map keys
	return string(b)
}

type runObs struct {
	data   string
	errors []string
	subs   []string
}

func observe(c *RepeatCase, gwBuild func() (*fake.Net, func(gwx.GQLRequest) *gwx.Response, error), rep int, net *fake.Net, post func(gwx.GQLRequest) *gwx.Response) (*runObs, *ev.Failure) {
	net.Reset()
	if rep < len(c.DelaysUS) {
		d := c.DelaysUS[rep]
		urls := c.World.URLs()
		net.BeforeRespond = func(url string, reqs []*fake.Received) {
			for i, u := range urls {
				if u == url && i < len(d) && d[i] > 0 {
					time.Sleep(time.Duration(d[i]) * time.Microsecond)
				}
			}
		}
	} else {
		net.BeforeRespond = nil
	}
	resp := post(gwx.GQLRequest{Query: c.Op.Query, Variables: c.Op.Variables, OperationName: c.Op.OperationName})
	if resp.TimedOut {
		return nil, ev.Failf("hang", "no response")
	}
	if resp.Panic != "" {
		return nil, ev.Failf("panic:"+gwx.PanicSite(resp.Panic), "%s", trunc(resp.Panic, 800))
	}
	if len(c.Batch) > 0 {
		// batch mode: the whole array is the observation (slot by slot: data, error multiset)
		var raw []json.RawMessage
		if err := json.Unmarshal(resp.Body, &raw); err != nil {
			return nil, ev.Failf("envelope", "batch response is not an array: %s", trunc(string(resp.Body), 200))
		}
		o := &runObs{}
		var slots []string
		for _, r := range raw {
			d, derr := gwx.Decode(r)
			if derr != nil || string(r) == "null" {
				slots = append(slots, "<"+string(r)+">")
				continue
			}
			dk, ek := resultKey(d)
			slots = append(slots, dk+"|"+strings.Join(ek, ";"))
		}
		o.data = strings.Join(slots, "\n")
		for _, r := range net.Snapshot() {
			o.subs = append(o.subs, r.Service+"\x00"+r.Query+"\x00"+canonical(r.Variables))
		}
		sort.Strings(o.subs)
		return o, nil
	}
	dec, err := gwx.Decode(resp.Body)
	if err != nil {
		return nil, ev.Failf("envelope", "%v", err)
	}
	o := &runObs{data: canonical(dec.Data)}
	for _, e := range dec.Errors {
		// several concurrently failing steps may be folded into one message in either order (the statement
		// allows the relative order of such errors to vary): compare the message as a multiset of sentences
		if m, ok := e["message"].(string); ok {
			parts := strings.Split(m, ". ")
			sort.Strings(parts)
			e["message"] = strings.Join(parts, ". ")
		}
		o.errors = append(o.errors, canonical(e))
	}
	sort.Strings(o.errors)
	for _, r := range net.Snapshot() {
		o.subs = append(o.subs, r.Service+"\x00"+r.Query+"\x00"+canonical(r.Variables))
	}
	sort.Strings(o.subs)
	return o, nil
}

func checkC13(c *RepeatCase) *ev.Failure {
	if c.GoMaxProcs > 0 {
		old := runtime.GOMAXPROCS(c.GoMaxProcs)
		defer runtime.GOMAXPROCS(old)
	}
	var base *runObs
	compare := func(o *runObs, where string) *ev.Failure {
		if base == nil {
			base = o
			return nil
		}
		if o.data != base.data {
			return ev.Failf("data-varies", "%s: data differs from the first answer\nfirst %s\nnow   %s", where, trunc(base.data, 700), trunc(o.data, 700))
		}
		if strings.Join(o.errors, "\n") != strings.Join(base.errors, "\n") {
			return ev.Failf("errors-vary", "%s: errors differ\nfirst %v\nnow   %v", where, base.errors, o.errors)
		}
		if strings.Join(o.subs, "\n") != strings.Join(base.subs, "\n") {
			return ev.Failf("subrequests-vary", "%s: the multiset of sub-requests differs\nfirst %q\nnow   %q", where, base.subs, o.subs)
		}
		return nil
	}
	rep := 0
	for g := 0; g <= c.Fresh; g++ {
		net, err := fake.NewNet(c.World)
		if err != nil {
			return ev.Failf("harness", "%v", err)
		}
		gw, err := gwx.Build(c.World, net, c.Config)
		if err != nil {
			return ev.Failf("harness", "world does not merge: %v", err)
		}
		post := func(r gwx.GQLRequest) *gwx.Response {
			if len(c.Batch) > 0 {
				b, _ := json.Marshal(c.Batch)
				return gwx.Post(gw, b, "application/json", 10*time.Second)
			}
			return gwx.PostOp(gw, r, 10*time.Second)
		}
		n := 1
		if g == 0 {
			n = maxInt(c.Repeats, 1)
		}
		for i := 0; i < n; i++ {
			o, f := observe(c, nil, rep, net, post)
			if f != nil {
				return f
			}
			if f := compare(o, fmt.Sprintf("gateway %d repetition %d", g, i)); f != nil {
				return f
			}
			rep++
		}
	}
	return nil
}

var introspectionOps = []string{
	"{ __schema { types { name kind } } }",
	"{ __schema { types { n: name } } }",
	"{ __schema { types { kind fields { name } } directives { locations } } }",
	"{ __schema { queryType { name fields { name args { name } } } } }",
	"{ __schema { directives { name args { name } } } }",
	"{ __schema { d: directives { n: name } } }",
	"{ __schema { types { name possibleTypes { name } interfaces { name } enumValues { name } inputFields { name } } } }",
}

func TestC13(t *testing.T) {
	rec := ev.Get("C13")
	rec.Rule = "world x operation (generated queries and mutations, plus introspection selections with and without aliased name) repeated k times (quick 4..6, thorough 10..25) on one gateway and on 2..3 freshly built gateways (fresh maps), the fakes answering after drawn per-service delays, GOMAXPROCS in {1,4,16}; oracle: canonical data identical, multiset of errors identical, multiset of (service, query text, variables) sub-requests identical; non-trivial = the operation makes >=2 downstream calls or is an introspection over >=2 types; distinct by hash(case)"
	defer census.dump("C13")
	mixIntrospection = true
	defer func() { mixIntrospection = false }()
	rapid.Check(t, func(t *rapid.T) {
		opType := ast.Query
		if rapid.IntRange(0, 5).Draw(t, "mutation") == 0 {
			opType = ast.Mutation
		}
		base, m := genExecCase(t, rec, opType)
		if base == nil {
			return
		}
		intro := rapid.IntRange(0, 5).Draw(t, "introspection") == 0
		if intro {
			base.Op.Query = rapid.SampledFrom(introspectionOps).Draw(t, "introop")
			base.Op.Variables = nil
			base.Op.OperationName = nil
		}
		fs := caseFeatures(base)
		if g := closedGateIn(fs); g != "" {
			rec.Exclude(g)
			return
		}
		lo, hi := 4, 6
		if ev.Thorough() {
			lo, hi = 10, 25
		}
		c := &RepeatCase{ExecCase: *base, Repeats: rapid.IntRange(lo, hi).Draw(t, "repeats"), Fresh: rapid.IntRange(2, 3).Draw(t, "fresh"),
			GoMaxProcs: rapid.SampledFrom([]int{1, 4, 16}).Draw(t, "gomaxprocs")}
		if rapid.IntRange(0, 3).Draw(t, "batchmode") == 0 {
			me := gwx.GQLRequest{Query: c.Op.Query, Variables: c.Op.Variables, OperationName: c.Op.OperationName}
			extras := []gwx.GQLRequest{
				{Query: "query A { __typename } query B { __typename }"},                              // ambiguous: no operationName
				{Query: "{ __schema { queryType { name } } }"},                                        // introspection
				{Query: "query A { __schema { queryType { name } } }", OperationName: strPtr("Nope")}, // unknown operationName
				{Query: "{ nopeField }"}, // invalid
				me,
			}
			c.Batch = []gwx.GQLRequest{me}
			for k := rapid.IntRange(1, 3).Draw(t, "nextra"); k > 0; k-- {
				c.Batch = append(c.Batch, extras[rapid.IntRange(0, len(extras)-1).Draw(t, "extra")])
			}
		}
		for i := 0; i < c.Repeats+c.Fresh; i++ {
			d := make([]int, m.NServices)
			for j := range d {
				if rapid.IntRange(0, 2).Draw(t, "hasdelay") == 0 {
					d[j] = rapid.IntRange(20, 400).Draw(t, "delay")
				}
			}
			c.DelaysUS = append(c.DelaysUS, d)
		}
		ev.Current("C13", c)
		f := checkC13(c)
		labels := []string{fmt.Sprintf("gomaxprocs=%d", c.GoMaxProcs)}
		if len(c.Batch) > 0 {
			labels = append(labels, "batch")
		}
		if intro {
			labels = append(labels, "introspection")
		}
		nt := intro
		if !intro {
			// count downstream calls of one run
			net, _ := fake.NewNet(c.World)
			if gw, err := gwx.Build(c.World, net, c.Config); err == nil {
				gwx.PostOp(gw, gwx.GQLRequest{Query: c.Op.Query, Variables: c.Op.Variables, OperationName: c.Op.OperationName}, 5*time.Second)
				n := len(recordCalls(net.Snapshot()))
				nt = n >= 2
				labels = append(labels, fmt.Sprintf("calls=%d", minInt(n, 5)))
			}
		}
		rec.Case(ev.Hash(c.World.Services, c.Op, c.Config), nt, labels...)
		rec.AddExtra("requests_sent", c.Repeats+c.Fresh)
		rec.Sample(nt, func() interface{} {
			return map[string]interface{}{"query": c.Op.Query, "repeats": c.Repeats, "fresh_gateways": c.Fresh, "gomaxprocs": c.GoMaxProcs}
		})
		if f != nil {
			if isCensus() {
				census.add(f.Signature, c.Op.Query+" ## "+trunc(f.Message, 400))
				return
			}
			if only := onlySig(); only != "" && !strings.HasPrefix(f.Signature, only) {
				return
			}
			ev.WriteFail("C13", c, f)
			t.Fatalf("%v", f)
		}
	})
}

func init() {
	replayers["C13"] = func(path string) (*ev.Failure, error) {
		var c RepeatCase
		if _, _, err := ev.LoadCase(path, &c); err != nil {
			return nil, err
		}
		if c.Repeats < 2 {
			c.Repeats = 12
		}
		if c.Fresh < 1 {
			c.Fresh = 6
		}
		return checkC13(&c), nil
	}
}
