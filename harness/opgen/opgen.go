// Package opgen generates GraphQL operations (text + variables) against a schema
// from a grammar, valid by construction as far as practical; the caller
// validates with gqlparser and counts the residue.
package opgen

import (
	"encoding/json"
	"fmt"
	"sort"
	"strings"

	"github.com/vektah/gqlparser/v2/ast"
	"pgregory.net/rapid"
)

type Options struct {
	OpType       ast.Operation
	MaxDepth     int
	MaxRoot      int
	Aliases      bool
	Fragments    bool
	Variables    bool
	VarDefaults  bool
	Directives   bool
	DirVars      bool // variables used only inside directives
	DupKeys      bool // same response key selected twice (mergeable)
	DupComposite bool // same composite response key twice with different sub-selections
	AliasSibling bool // alias equal to the name of another field in scope
	Typename     bool
	NodeRoot     bool
	RootTypename bool
	VarNamedID   bool
	MultiOp      bool
	OpName       bool
	// IDs usable for node(id:) roots
	IDs []string
	// MixIntrospection: query operations may carry one simple introspection root field beside the ordinary ones
	MixIntrospection bool
	// MetaRoot: select the introspection root fields (__schema, __type) instead of ordinary ones
	MetaRoot bool
	// StringPool overrides the pool of String literals / values (e.g. type names for __type(name:))
	StringPool []string
	// Avoid: feature classes (names of package feat) the generator must not produce (closed gates)
	Avoid map[string]bool
}

func DefaultOptions() Options {
	return Options{OpType: ast.Query, MaxDepth: 3, MaxRoot: 3, Aliases: true, Fragments: true, Variables: true, VarDefaults: true,
		Directives: true, DirVars: true, DupKeys: true, DupComposite: true, AliasSibling: true, Typename: true, NodeRoot: true,
		RootTypename: true, VarNamedID: true, MultiOp: true, OpName: true}
}

type Op struct {
	Query         string                 `json:"query"`
	Variables     map[string]interface{} `json:"variables,omitempty"`
	OperationName *string                `json:"operationName,omitempty"`
	Labels        []string               `json:"labels,omitempty"`
}

type varDef struct {
	name     string
	typ      string
	def      string
	value    interface{}
	hasValue bool
	pos      string
}

type gen struct {
	t                    *rapid.T
	s                    *ast.Schema
	o                    Options
	vars                 []*varDef
	frags                []string
	nfrag                int
	aliasSeq, twinVar    int
	labels               map[string]bool
	leafOnly, noTypename int
	noNamed              int // > 0: no named fragments (spreads) are generated
	noFrags              int // > 0: no fragments at all (inside the type fragments of a node root while their classes are gated)
	rootArgs             int // > 0 while the arguments of a root field are generated (they always stay in a root step)
	fragsByType          map[string][]fragInfo
}

type fragInfo struct {
	name  string
	keys  map[string]string
	names []string
}

func (g *gen) pick(n int, label string) int {
	if n <= 1 {
		return 0
	}
	return rapid.IntRange(0, n-1).Draw(g.t, label)
}

func (g *gen) chance(pct int, label string) bool {
	return rapid.IntRange(0, 99).Draw(g.t, label) < pct
}

func (g *gen) label(l string) { g.labels[l] = true }

// freshAlias numbers aliases by the size of the scope; in a scope forked for one object type the number is unique
// in the whole operation, so two fragments on different object types share a response key only by selecting the
// same field (with other arguments), never two fields of different shape.
func (g *gen) freshAlias(sc *scope, prefix string) string {
	if sc.forked {
		g.aliasSeq++
		return fmt.Sprintf("%sf%d", prefix, g.aliasSeq)
	}
	return fmt.Sprintf("%s%d", prefix, len(sc.keys))
}

type scope struct {
	noHelpers bool     // closed gates: no id/__typename in a scope with type-conditioned fragments
	twins     []string // forked scope: leaf fields the fragments on sibling object types selected (re-selected with other arguments)
	forked    bool     // a copy made by forkForType: aliases are globally fresh, so a shared key is always the same field
	dirKeys   map[string]bool
	fragKeys  map[string]bool // keys first selected inside a fragment
	inFrag    int
	keys      map[string]string // response key -> signature
	// names of fields selected in this scope (for AliasSibling)
	names []string
}

func newScope() *scope { return &scope{keys: map[string]string{}} }

// forkForType copies the scope for a fragment on one object type below an abstract type: what the fragment selects
// meets the directly selected fields in one object, but never the selections of a fragment on another object type.
func (sc *scope) forkForType() *scope {
	c := &scope{forked: true, noHelpers: sc.noHelpers, inFrag: sc.inFrag, keys: map[string]string{}, names: append([]string{}, sc.names...)}
	for k, v := range sc.keys {
		c.keys[k] = v
	}
	if sc.dirKeys != nil {
		c.dirKeys = map[string]bool{}
		for k, v := range sc.dirKeys {
			c.dirKeys[k] = v
		}
	}
	if sc.fragKeys != nil {
		c.fragKeys = map[string]bool{}
		for k, v := range sc.fragKeys {
			c.fragKeys[k] = v
		}
	}
	return c
}

func isLeaf(s *ast.Schema, t *ast.Type) bool {
	d := s.Types[t.Name()]
	return d == nil || d.Kind == ast.Scalar || d.Kind == ast.Enum
}

func (g *gen) fieldsOf(def *ast.Definition) []*ast.FieldDefinition {
	var r []*ast.FieldDefinition
	isRoot := def == g.s.Query || def == g.s.Mutation || def == g.s.Subscription
	for _, f := range def.Fields {
		meta := strings.HasPrefix(f.Name, "__")
		if g.o.MetaRoot && isRoot {
			if meta && f.Name != "__typename" {
				r = append(r, f)
			}
			continue
		}
		if meta {
			continue
		}
		r = append(r, f)
	}
	return r
}

// Generate draws one operation document.
func Generate(t *rapid.T, s *ast.Schema, o Options) *Op {
	g := &gen{t: t, s: s, o: o, labels: map[string]bool{}}
	var root *ast.Definition
	kw := "query"
	switch o.OpType {
	case ast.Mutation:
		root, kw = s.Mutation, "mutation"
	case ast.Subscription:
		root, kw = s.Subscription, "subscription"
	default:
		root = s.Query
	}
	if root == nil {
		return nil
	}
	body := g.rootSelection(root)
	if body == "" {
		return nil
	}
	op := &Op{}
	name := ""
	if o.OpName && g.chance(40, "opname") {
		name = "Op" + string(rune('A'+g.pick(3, "opn")))
		g.label("named")
	}
	header := ""
	if len(g.vars) > 0 {
		parts := make([]string, len(g.vars))
		for i, v := range g.vars {
			parts[i] = "$" + v.name + ": " + v.typ
			if v.def != "" {
				parts[i] += " = " + v.def
			}
		}
		header = "(" + strings.Join(parts, ", ") + ")"
		op.Variables = map[string]interface{}{}
		for _, v := range g.vars {
			if v.hasValue {
				op.Variables[v.name] = v.value
			}
		}
	}
	var doc strings.Builder
	if name == "" && header == "" && kw == "query" && g.chance(50, "shorthand") {
		doc.WriteString(body)
	} else {
		doc.WriteString(kw)
		if name != "" {
			doc.WriteString(" " + name)
		}
		doc.WriteString(header + " " + body)
	}
	for _, f := range g.frags {
		doc.WriteString("\n" + f)
	}
	if o.MultiOp && name != "" && g.chance(20, "multiop") {
		// a second, unrelated operation; operationName selects the first
		doc.WriteString("\nquery Other { __typename }")
		op.OperationName = &name
		g.label("multiOp")
	} else if name != "" && g.chance(50, "sendname") {
		op.OperationName = &name
	}
	op.Query = doc.String()
	for l := range g.labels {
		op.Labels = append(op.Labels, l)
	}
	sort.Strings(op.Labels)
	return op
}

func (g *gen) rootSelection(root *ast.Definition) string {
	fields := g.fieldsOf(root)
	var cands []*ast.FieldDefinition
	var nodeField *ast.FieldDefinition
	for _, f := range fields {
		if f.Name == "node" && f.Type.Name() == "Node" {
			nodeField = f
			continue
		}
		cands = append(cands, f)
	}
	sc := newScope()
	var parts []string
	n := 1 + g.pick(g.o.MaxRoot, "nroot")
	for i := 0; i < n && len(cands) > 0; i++ {
		f := cands[g.pick(len(cands), "rootf")]
		if s := g.field(root, f, 1, sc); s != "" {
			parts = append(parts, s)
		}
	}
	if nodeField != nil && g.o.NodeRoot && !g.o.Avoid["op.nodeRoot"] && len(g.o.IDs) > 0 && g.chance(15, "noderoot") {
		// one to three node(id:) root fields (a client refetching several entities)
		for k, nn := 0, 1+g.pick(3, "nnoderoots"); k < nn; k++ {
			if s := g.nodeRoot(sc); s != "" {
				parts = append(parts, s)
				g.label("nodeRoot")
			}
		}
	}
	if g.chance(4, "roottn") {
		if g.o.RootTypename && !g.o.Avoid["op.rootTypename"] && root != g.s.Subscription { // a subscription has exactly one root field
			parts = append(parts, "__typename")
			g.label("rootTypename")
		}
	}
	if g.o.MixIntrospection && !g.o.MetaRoot && root == g.s.Query && len(parts) > 0 && !g.o.Avoid["op.introspectionMixedWithFields"] && g.chance(6, "mixmeta") {
		var names []string
		for n, d := range g.s.Types {
			if !strings.HasPrefix(n, "__") && d.Kind != ast.Scalar {
				names = append(names, n)
			}
		}
		sort.Strings(names)
		names = append(names, "NoSuchType", "String")
		var m string
		switch g.pick(3, "metakind") {
		case 0:
			m = "__schema { queryType { name } mutationType { name } }"
		case 1:
			m = fmt.Sprintf("__type(name: %q) { name kind }", names[g.pick(len(names), "metatype")])
		default:
			m = fmt.Sprintf("meta: __type(name: %q) { kind n: name }", names[g.pick(len(names), "metatype")])
		}
		if g.chance(50, "metafirst") {
			parts = append([]string{m}, parts...)
		} else {
			parts = append(parts, m)
		}
		g.label("introspectionMixedWithFields")
	}
	if len(parts) == 0 {
		return ""
	}
	if g.o.Fragments && len(parts) >= 1 && len(parts) == len(sc.keys) && g.chance(8, "rootfrag") {
		// root fields inside an inline fragment on the root type (with or without type condition)
		k := g.pick(len(parts), "rootfragfrom")
		inner := strings.Join(parts[k:], " ")
		cond := ""
		if g.chance(60, "rootfragcond") {
			cond = "on " + root.Name + " "
		}
		parts = append(append([]string{}, parts[:k]...), "... "+cond+"{ "+inner+" }")
		g.label("rootInlineFragment")
	}
	return "{ " + strings.Join(parts, " ") + " }"
}

func (g *gen) nodeRoot(sc *scope) string {
	id := g.o.IDs[g.pick(len(g.o.IDs), "nodeid")]
	key := "node"
	alias := ""
	if _, used := sc.keys[key]; used || g.chance(30, "nodealias") {
		alias = fmt.Sprintf("n%d", len(sc.keys))
		key = alias
	}
	sc.keys[key] = "node"
	nodeDef := g.s.Types["Node"]
	var members []*ast.Definition
	for _, pt := range g.s.PossibleTypes["Node"] {
		members = append(members, pt)
	}
	sort.Slice(members, func(i, j int) bool { return members[i].Name < members[j].Name })
	inner := newScope()
	var parts []string
	if !g.o.Avoid["op.nodeRootDirectField"] {
		if g.chance(50, "nodeid?") {
			parts = append(parts, "id")
			inner.keys["id"] = "id"
		}
		if g.o.Typename && g.chance(40, "nodetn") {
			parts = append(parts, "__typename")
			inner.keys["__typename"] = "__typename"
		}
	}
	if g.o.Avoid["op.nodeRootNestedSelection"] {
		g.leafOnly++
		defer func() { g.leafOnly-- }()
	}
	if g.o.Avoid["op.nodeRootFragmentTypename"] {
		g.noTypename++
		defer func() { g.noTypename-- }()
	}
	_ = nodeDef
	if g.o.Avoid["op.nodeRootNamedFragment"] {
		g.noNamed++
		defer func() { g.noNamed-- }()
	}
	if g.o.Avoid["op.helperLostToFragmentScrub"] || g.o.Avoid["op.abstractScopeNestedFragments"] {
		// a fragment below the type fragment of a node root falls into the classes of those open findings
		g.noFrags++
		defer func() { g.noFrags-- }()
	}
	for _, m := range members {
		// prefer the id's own type
		own := strings.HasPrefix(id, m.Name+"_")
		if own || !g.o.Avoid["op.nodeRootSeveralTypeFragments"] && g.chance(25, "nodefrag") {
			sc := inner.child()
			pre := ""
			if g.o.Avoid["op.nodeRootHelperId"] {
				// the client selects id itself: no helper id is added below the node root
				if _, used := sc.keys["id"]; !used {
					sc.keys["id"] = "id"
					sc.names = append(sc.names, "id")
				}
				pre = "id "
			}
			if pre != "" && g.chance(25, "idonlyfrag") {
				parts = append(parts, "... on "+m.Name+" { id }") // refetching nothing but the id
			} else {
				parts = append(parts, "... on "+m.Name+" { "+pre+g.selections(m, 2, sc)+" }")
			}
		}
	}
	if len(parts) == 0 {
		return ""
	}
	s := ""
	if alias != "" {
		s = alias + ": "
	}
	return s + "node(id: " + jsonStr(id) + ") { " + strings.Join(parts, " ") + " }"
}

// child returns a scope sharing response keys (inline fragments share the parent's response map).
func (sc *scope) child() *scope { return sc }

func jsonStr(s string) string {
	b, _ := json.Marshal(s)
	return string(b)
}

func (g *gen) selectionSet(def *ast.Definition, depth int, sc *scope) string {
	return "{ " + g.selections(def, depth, sc) + " }"
}

func (g *gen) selections(def *ast.Definition, depth int, sc *scope) string {
	var parts []string
	fields := g.fieldsOf(def)
	if def.Kind == ast.Union {
		fields = nil
	}
	// plan the fragments first: helper fields interact with them
	abstract := def.Kind == ast.Interface || def.Kind == ast.Union
	var fragTypes []*ast.Definition
	selfInline, selfNoCond := false, false
	if abstract {
		pts := append([]*ast.Definition{}, g.s.PossibleTypes[def.Name]...)
		sort.Slice(pts, func(i, j int) bool { return pts[i].Name < pts[j].Name })
		// often no type fragments at all: the interface's own fields, spread by the planner over the implementations
		if g.noFrags > 0 && def.Kind != ast.Union {
			// no type fragments wanted here
		} else if def.Kind == ast.Union || !g.chance(40, "plainabstract") {
			all := len(pts) > 1 && g.chance(35, "allpts")
			for _, pt := range pts {
				if all || g.chance(55, "ptfrag") {
					fragTypes = append(fragTypes, pt)
				}
			}
		}
	} else if g.o.Fragments && g.noFrags == 0 && depth <= g.o.MaxDepth && g.chance(12, "selfinline") {
		selfInline = true
		selfNoCond = g.chance(50, "nocond")
	}
	avoidHelpers := g.o.Avoid["op.helperLostToFragmentScrub"] || g.o.Avoid["op.helperOnlyInsideSubtypeFragment"]
	if avoidHelpers && (len(fragTypes) > 0 || selfInline && !selfNoCond) {
		sc.noHelpers = true
	}
	if avoidHelpers && len(fragTypes) > 0 {
		// a fragment on a type with nothing but id to select would fall back to __typename, a helper field
		var keep []*ast.Definition
		for _, pt := range fragTypes {
			for _, f := range g.fieldsOf(pt) {
				if isLeaf(g.s, f.Type) && !hasRequiredArgs(f) && f.Name != "id" {
					keep = append(keep, pt)
					break
				}
			}
		}
		fragTypes = keep
	}
	if sc.inFrag > 0 && abstract && g.o.Avoid["op.abstractScopeNestedFragments"] {
		fragTypes = nil
	}
	if g.o.Typename && g.noTypename == 0 && !sc.noHelpers && (abstract && g.chance(40, "tn") || g.chance(8, "tn2")) {
		if _, ok := sc.keys["__typename"]; !ok {
			sc.keys["__typename"] = "__typename"
			parts = append(parts, "__typename")
		}
	}
	if tw := sc.twins; len(tw) > 0 {
		// the same leaf field as in the fragment on a sibling object type: one response key, possibly other arguments
		sc.twins = nil
		for _, name := range tw {
			f := def.Fields.ForName(name)
			if f == nil || !isLeaf(g.s, f.Type) || name == "id" || name == "__typename" || !g.chance(70, "twin") {
				continue
			}
			g.twinVar++
			s := g.field(def, f, depth+1, sc)
			g.twinVar--
			if s != "" {
				parts = append(parts, s)
				g.label("twinField")
			}
		}
	}
	if len(fields) > 0 {
		n := 1 + g.pick(3, "nsel")
		var comps []*ast.FieldDefinition
		for _, f := range fields {
			if !isLeaf(g.s, f.Type) {
				comps = append(comps, f)
			}
		}
		for i := 0; i < n; i++ {
			f := fields[g.pick(len(fields), "selfield")]
			if len(comps) > 0 && depth < g.o.MaxDepth && g.leafOnly == 0 && g.chance(35, "prefercomp") {
				f = comps[g.pick(len(comps), "compfield")]
			}
			if (depth >= g.o.MaxDepth || g.leafOnly > 0) && !isLeaf(g.s, f.Type) {
				continue
			}
			if (g.leafOnly > 0 || sc.noHelpers) && f.Name == "id" {
				continue
			}
			if s := g.field(def, f, depth+1, sc); s != "" {
				parts = append(parts, s)
			}
		}
	}
	var twins []string
	for _, pt := range fragTypes {
		if pt.Kind == ast.Object && len(fragTypes) > 1 && g.chance(75, "forktype") {
			fsc := sc.forkForType()
			fsc.twins = twins
			nbefore := len(fsc.names)
			parts = append(parts, g.fragmentOn(pt, depth, fsc))
			twins = append(twins, fsc.names[nbefore:]...)
			continue
		}
		parts = append(parts, g.fragmentOn(pt, depth, sc))
	}
	if selfInline {
		if selfNoCond {
			sc.inFrag++
			parts = append(parts, "... "+g.fragDirs()+g.selectionSet(def, depth+1, sc))
			sc.inFrag--
			g.label("inlineNoCond")
		} else {
			parts = append(parts, g.fragmentOn(def, depth+1, sc))
		}
	}
	if len(parts) == 0 {
		// something must be selected
		for _, f := range fields {
			if isLeaf(g.s, f.Type) && !hasRequiredArgs(f) && !(sc.noHelpers && f.Name == "id") {
				if _, ok := sc.keys[f.Name]; !ok {
					sc.keys[f.Name] = sigOf(f, "")
					sc.names = append(sc.names, f.Name)
					return f.Name
				}
			}
		}
		if g.noTypename > 0 {
			return "id"
		}
		if sc.noHelpers && g.o.Aliases {
			// a scope that must stay free of helper fields: a leaf under a fresh key rather than __typename
			for _, f := range fields {
				if isLeaf(g.s, f.Type) && !hasRequiredArgs(f) && f.Name != "id" {
					k := g.freshAlias(sc, "q")
					if _, used := sc.keys[k]; !used {
						sc.keys[k] = sigOf(f, "")
						sc.names = append(sc.names, f.Name)
						return k + ": " + f.Name
					}
				}
			}
		}
		if _, ok := sc.keys["__typename"]; !ok {
			sc.keys["__typename"] = "__typename"
			return "__typename"
		}
		if g.o.Avoid["op.duplicateKeyDifferentConditions"] || g.o.Avoid["op.duplicateResponseKey"] {
			// __typename is selected already in this response map (outside this fragment): a fresh key instead of a repeat
			k := fmt.Sprintf("t%d", len(sc.keys))
			if _, used := sc.keys[k]; !used {
				sc.keys[k] = "__typename"
				return k + ": __typename"
			}
		}
		return "__typename"
	}
	return strings.Join(parts, " ")
}

func hasRequiredArgs(f *ast.FieldDefinition) bool {
	for _, a := range f.Arguments {
		if a.Type.NonNull && a.DefaultValue == nil {
			return true
		}
	}
	return false
}

func (g *gen) fragDirs() string {
	if g.o.Avoid["op.directiveOnFragment"] {
		return ""
	}
	return g.dirs()
}

func (g *gen) fragmentOn(def *ast.Definition, depth int, sc *scope) string {
	g.label("fragments")
	sc.inFrag++
	defer func() { sc.inFrag-- }()
	// spread an existing fragment on this type a second time (one definition, two usages)
	if g.o.Fragments && g.noNamed == 0 && len(g.fragsByType[def.Name]) > 0 && g.chance(40, "reusefrag") {
		fi := g.fragsByType[def.Name][g.pick(len(g.fragsByType[def.Name]), "whichfrag")]
		ok := true
		for k, sig := range fi.keys {
			if sc.noHelpers && (sig == "id" || sig == "__typename" || k == "id" || k == "__typename") {
				ok = false // the fragment selects a helper field, this scope must not (closed gates)
			}
			if prev, used := sc.keys[k]; used && prev != sig {
				ok = false
			}
			if _, used := sc.keys[k]; used && g.o.Avoid["op.duplicateKeyDifferentConditions"] {
				ok = false
			}
		}
		if ok {
			for k, sig := range fi.keys {
				sc.keys[k] = sig
			}
			sc.names = append(sc.names, fi.names...)
			g.label("namedFragmentUsedTwice")
			return "..." + fi.name
		}
	}
	if g.o.Fragments && g.noNamed == 0 && g.chance(35, "named") {
		g.nfrag++
		name := fmt.Sprintf("F%d", g.nfrag)
		before := map[string]string{}
		for k, v := range sc.keys {
			before[k] = v
		}
		nbefore := len(sc.names)
		nvars := len(g.vars)
		body := g.selectionSet(def, depth, sc)
		g.frags = append(g.frags, "fragment "+name+" on "+def.Name+" "+body)
		// only fragments that do not use variables are reused (a second usage would need the same variables in scope anyway)
		if len(g.vars) == nvars && !strings.Contains(body, "$") && !strings.Contains(body, "...") {
			fi := fragInfo{name: name, keys: map[string]string{}, names: append([]string{}, sc.names[nbefore:]...)}
			for k, v := range sc.keys {
				if _, had := before[k]; !had {
					fi.keys[k] = v
				}
			}
			if g.fragsByType == nil {
				g.fragsByType = map[string][]fragInfo{}
			}
			g.fragsByType[def.Name] = append(g.fragsByType[def.Name], fi)
		}
		g.label("namedFragment")
		d := strings.TrimSpace(g.fragDirs())
		if d != "" {
			d = " " + d
		}
		return "..." + name + d
	}
	return "... on " + def.Name + " " + g.fragDirs() + g.selectionSet(def, depth, sc)
}

func (g *gen) dirsSp() string {
	d := g.dirs()
	if d == "" {
		return ""
	}
	return " " + strings.TrimSpace(d)
}

func (g *gen) dirs() string {
	if !g.o.Directives || g.o.Avoid["op.directives"] || !g.chance(4, "dir") {
		return ""
	}
	g.label("directives")
	name := "include"
	if g.chance(50, "skip") {
		name = "skip"
	}
	if g.o.Variables && g.chance(50, "dirvar") {
		if g.o.DirVars && !g.o.Avoid["op.directiveVariables"] {
			v := g.variableFor("Boolean!", &ast.Type{NamedType: "Boolean", NonNull: true})
			g.label("directiveVariables")
			return "@" + name + "(if: $" + v.name + ") "
		}
	}
	val := "true"
	if g.chance(50, "dirval") {
		val = "false"
	}
	return "@" + name + "(if: " + val + ") "
}

func sigOf(f *ast.FieldDefinition, args string) string {
	return f.Name + "(" + args + "):" + f.Type.String()
}

func (g *gen) field(parent *ast.Definition, f *ast.FieldDefinition, depth int, sc *scope) string {
	nvars := len(g.vars)
	s := g.field0(parent, f, depth, sc)
	if s == "" && len(g.vars) > nvars {
		g.vars = g.vars[:nvars] // variables created for a dropped field would be unused
	}
	return s
}

func (g *gen) field0(parent *ast.Definition, f *ast.FieldDefinition, depth int, sc *scope) string {
	if depth == 1 {
		g.rootArgs++
	}
	args := g.arguments(f)
	if depth == 1 {
		g.rootArgs--
	}
	if args == "!" {
		return ""
	}
	sig := sigOf(f, args)
	key := f.Name
	alias := ""
	helper := f.Name == "id"
	if g.o.Avoid["op.aliasEqualsSiblingName"] {
		for _, n := range sc.names {
			if n == f.Name {
				if _, used := sc.keys[f.Name]; !used || sc.keys[f.Name] != sig || !isLeaf(g.s, f.Type) {
					return ""
				}
			}
		}
	}
	if g.o.Aliases && g.chance(20, "alias") && !(helper && g.o.Avoid["op.idAliased"]) {
		alias = g.freshAlias(sc, []string{"a", "x", "al"}[g.pick(3, "aln")])
		if len(sc.names) > 0 && !sc.forked && g.chance(25, "aliasSibling") {
			cand := sc.names[g.pick(len(sc.names), "sib")]
			if cand != f.Name {
				if g.o.AliasSibling && !g.o.Avoid["op.aliasEqualsSiblingName"] && (cand != "id" && cand != "__typename" || !g.o.Avoid["op.aliasIsHelperName"]) {
					alias = cand
					g.label("aliasEqualsSiblingName")
				}
			}
		}
		if _, used := sc.keys["node"]; !used && !sc.forked && f.Name != "node" && g.chance(3, "aliasnode") {
			alias = "node" // the response key of the gateway's own entity lookups
		}
		key = alias
		g.label("aliases")
	}
	leaf := isLeaf(g.s, f.Type)
	repeated := false
	if prev, used := sc.keys[key]; used {
		repeated = prev == sig
		if prev != sig {
			// would conflict: choose a fresh alias instead
			alias = g.freshAlias(sc, "k")
			key = alias
			if _, u2 := sc.keys[key]; u2 {
				return ""
			}
		} else if g.o.Avoid["op.duplicateResponseKey"] {
			return ""
		} else if g.o.Avoid["op.duplicateKeyDifferentConditions"] && (sc.inFrag > 0 || sc.fragKeys[key] || sc.dirKeys[key]) {
			return ""
		} else if leaf {
			if !g.o.DupKeys {
				return ""
			}
			g.label("dupLeafKey")
		} else {
			if !g.o.DupComposite || g.o.Avoid["op.duplicateCompositeKey"] {
				return ""
			}
			g.label("dupCompositeKey")
		}
	}
	if _, used := sc.keys[key]; !used && sc.inFrag > 0 {
		if sc.fragKeys == nil {
			sc.fragKeys = map[string]bool{}
		}
		sc.fragKeys[key] = true
	}
	sc.keys[key] = sig
	sc.names = append(sc.names, f.Name)
	var b strings.Builder
	if alias != "" {
		b.WriteString(alias + ": ")
	}
	b.WriteString(f.Name)
	if args != "" {
		b.WriteString("(" + args + ")")
		g.label("arguments")
	}
	plainRepeat := repeated && g.o.Avoid["op.duplicateKeyDifferentConditions"] // a repeated key under the same conditions: no directives
	if !(helper && g.o.Avoid["op.helperFieldConditional"]) && !plainRepeat {
		if d := g.dirs(); d != "" {
			b.WriteString(" " + strings.TrimSpace(d))
			if sc.dirKeys == nil {
				sc.dirKeys = map[string]bool{}
			}
			sc.dirKeys[key] = true
		}
	}
	if !leaf {
		def := g.s.Types[f.Type.Name()]
		if def == nil {
			return ""
		}
		if depth > g.o.MaxDepth+1 {
			return ""
		}
		b.WriteString(" " + g.selectionSet(def, depth, newScope()))
		if depth >= 3 {
			g.label("depth>=3")
		}
	}
	return b.String()
}

func (g *gen) arguments(f *ast.FieldDefinition) string {
	var parts []string
	for _, a := range f.Arguments {
		required := a.Type.NonNull && a.DefaultValue == nil
		if !required && g.chance(40, "omitarg") {
			continue
		}
		parts = append(parts, a.Name+": "+g.argValue(a.Type, a.DefaultValue != nil, 0))
	}
	return strings.Join(parts, ", ")
}

// argValue renders a value for a position of type t, possibly a variable.
func (g *gen) argValue(t *ast.Type, posHasDefault bool, depth int) string {
	pct := 40
	if g.twinVar > 0 {
		pct = 75 // the twin of a field selected for a sibling type: most interesting with a variable of its own
	}
	if g.o.Variables && g.chance(pct, "usevar") {
		g.label("variables")
		vt := t.String()
		// stricter type sometimes
		if !t.NonNull && g.chance(30, "stricter") {
			vt += "!"
		}
		v := g.variableFor(vt, t)
		return "$" + v.name
	}
	return g.literal(t, depth)
}

func (g *gen) variableFor(typeStr string, posType *ast.Type) *varDef {
	// reuse
	if g.chance(25, "reusevar") {
		for _, v := range g.vars {
			if v.name == "id" && g.rootArgs == 0 && g.o.Avoid["op.variableNamedId"] {
				continue // below the root fields a client variable called id meets the gateway's own $id (open finding)
			}
			if v.typ == typeStr && (v.pos == posType.String() || !g.o.Avoid["op.variablePositionsDiffer"]) {
				g.label("variableReused")
				return v
			}
		}
	}
	name := fmt.Sprintf("v%d", len(g.vars))
	idPct := 6
	if g.rootArgs > 0 {
		idPct = 20 // $id for the argument of a root field is what clients write (deleteX(id: $id))
	}
	if g.chance(idPct, "varid") {
		if g.o.VarNamedID && (!g.o.Avoid["op.variableNamedId"] || g.rootArgs > 0) {
			taken := false
			for _, v := range g.vars {
				if v.name == "id" {
					taken = true
				}
			}
			if !taken {
				name = "id"
				g.label("variableNamedId")
			}
		}
	}
	v := &varDef{name: name, typ: typeStr, pos: posType.String()}
	nonNull := strings.HasSuffix(typeStr, "!")
	vt := *posType
	vt.NonNull = nonNull
	if g.chance(30, "vardef") {
		if g.o.VarDefaults {
			v.def = g.literalNoVar(&vt, 0, true)
			g.label("varDefaults")
		}
	}
	// value: required when non-null without default
	mustHave := nonNull && v.def == "" || v.def != "" && g.o.Avoid["op.variableDefaults"]
	if mustHave || g.chance(70, "hasvalue") {
		v.hasValue = true
		if !nonNull && g.chance(15, "nullvalue") {
			v.value = nil
			g.label("explicitNullVariable")
		} else {
			v.value = g.jsonValue(&vt, 0)
		}
	} else {
		g.label("variableAbsent")
	}
	g.vars = append(g.vars, v)
	return v
}

func (g *gen) literal(t *ast.Type, depth int) string { return g.literalNoVar(t, depth, false) }

func (g *gen) literalNoVar(t *ast.Type, depth int, constOnly bool) string {
	if !t.NonNull && g.chance(8, "nulllit") {
		return "null"
	}
	if t.Elem != nil {
		n := g.pick(3, "listlen")
		parts := make([]string, n)
		for i := range parts {
			if !constOnly && g.o.Variables && depth < 2 && g.chance(15, "listvar") {
				parts[i] = g.argValue(t.Elem, false, depth+1)
			} else {
				parts[i] = g.literalNoVar(t.Elem, depth+1, constOnly)
			}
		}
		return "[" + strings.Join(parts, ", ") + "]"
	}
	def := g.s.Types[t.NamedType]
	if def != nil {
		switch def.Kind {
		case ast.Enum:
			return def.EnumValues[g.pick(len(def.EnumValues), "enum")].Name
		case ast.Scalar:
			if !def.BuiltIn && def.Name != "Upload" && depth < 2 && g.chance(30, "scalarlit") {
				// the value of a custom scalar is free-form: a list or object literal, possibly with a variable inside
				inner := func() string {
					if !constOnly && g.o.Variables && !g.o.Avoid["op.variableInCustomScalarLiteral"] && g.chance(50, "scalarvar") {
						it := &ast.Type{NamedType: []string{"Int", "String", "Boolean"}[g.pick(3, "scalarvartype")]}
						g.label("variableInCustomScalarLiteral")
						return "$" + g.variableFor(it.NamedType, it).name
					}
					return []string{"1", "\"s\"", "true", "null", "[2, 3]", "{k: 1}"}[g.pick(6, "scalaratom")]
				}
				if g.chance(50, "scalarlist") {
					return "[" + inner() + ", " + inner() + "]"
				}
				return "{a: " + inner() + ", b: [" + inner() + "]}"
			}
		case ast.InputObject:
			var parts []string
			for _, f := range def.Fields {
				required := f.Type.NonNull && f.DefaultValue == nil
				if !required && g.chance(50, "omitinf") {
					continue
				}
				if !constOnly && g.o.Variables && depth < 2 && g.chance(25, "infvar") {
					parts = append(parts, f.Name+": "+g.argValue(f.Type, f.DefaultValue != nil, depth+1))
					g.label("variableInInputObject")
				} else {
					parts = append(parts, f.Name+": "+g.literalNoVar(f.Type, depth+1, constOnly))
				}
			}
			return "{" + strings.Join(parts, ", ") + "}"
		}
	}
	switch t.NamedType {
	case "Int":
		return fmt.Sprint(rapid.IntRange(-3, 40).Draw(g.t, "int"))
	case "Float":
		return fmt.Sprintf("%d.25", rapid.IntRange(0, 30).Draw(g.t, "float"))
	case "Boolean":
		if g.chance(50, "bool") {
			return "true"
		}
		return "false"
	default:
		if t.NamedType == "ID" && len(g.o.IDs) > 0 && g.chance(50, "realid") {
			return jsonStr(g.o.IDs[g.pick(len(g.o.IDs), "idlit")]) // an id of an existing entity (the id hint recognises it)
		}
		if t.NamedType == "String" && g.chance(8, "blockstr") {
			// block strings: an escaped triple quote, quotes at the end of the text, several indented lines
			g.label("blockString")
			pool := []string{`"""block text"""`, `"""say \"""hi\""" twice"""`, `"""ends with quotes\""""""`, "\"\"\"\n    first line\n      second \"line\"\n    \"\"\"", `""" "quoted" """`}
			return pool[g.pick(len(pool), "blockstrv")]
		}
		return jsonStr(g.str())
	}
}

func (g *gen) str() string {
	pool := []string{"a", "b c", "q\"uote", "üni", "", "x\\y", "long-value-123"}
	if len(g.o.StringPool) > 0 {
		pool = g.o.StringPool
	}
	return pool[g.pick(len(pool), "str")]
}

func (g *gen) jsonValue(t *ast.Type, depth int) interface{} {
	if !t.NonNull && depth > 0 && g.chance(8, "nulljson") {
		return nil
	}
	if t.Elem != nil {
		n := g.pick(3, "jlistlen")
		res := make([]interface{}, n)
		for i := range res {
			res[i] = g.jsonValue(t.Elem, depth+1)
		}
		return res
	}
	def := g.s.Types[t.NamedType]
	if def != nil {
		switch def.Kind {
		case ast.Enum:
			return def.EnumValues[g.pick(len(def.EnumValues), "jenum")].Name
		case ast.InputObject:
			m := map[string]interface{}{}
			for _, f := range def.Fields {
				required := f.Type.NonNull && f.DefaultValue == nil
				if !required && g.chance(50, "jomit") {
					continue
				}
				m[f.Name] = g.jsonValue(f.Type, depth+1)
			}
			return m
		}
	}
	switch t.NamedType {
	case "Int":
		return float64(rapid.IntRange(-3, 40).Draw(g.t, "jint"))
	case "Float":
		return float64(rapid.IntRange(0, 30).Draw(g.t, "jfloat")) + 0.5
	case "Boolean":
		return g.chance(50, "jbool")
	default:
		if t.NamedType == "ID" && len(g.o.IDs) > 0 && g.chance(50, "jrealid") {
			return g.o.IDs[g.pick(len(g.o.IDs), "idval")]
		}
		return g.str()
	}
}
