package props

import (
	"encoding/json"
	"fmt"
	"github.com/buildbuildio/pebbles/planner"
	"strings"
	"sync/atomic"
	"testing"
	"time"

	"github.com/buildbuildio/pebbles"
	"github.com/buildbuildio/pebbles/gqlerrors"
	"github.com/buildbuildio/pebbles/requests"
	"github.com/vektah/gqlparser/v2"
	"github.com/vektah/gqlparser/v2/ast"
	"pgregory.net/rapid"

	"verif/harness/ev"
	"verif/harness/fake"
	"verif/harness/gwx"
	"verif/harness/opgen"
	"verif/harness/refexec"
	"verif/harness/subx"
	"verif/harness/world"
)

// SubEvent: one upstream message of a subscription.
type SubEvent struct {
	Sub   int         `json:"sub"`             // index into Subs
	Value interface{} `json:"value,omitempty"` // stored value of the subscription root field for this event
	Error bool        `json:"error,omitempty"` // the upstream sends errors instead of data
	// Partial: the upstream sends the data of Value together with errors (a partial failure)
	Partial bool `json:"partial,omitempty"`
	// KeepAlive: the upstream (real websocket upstream only) sends a keep-alive message before this event
	KeepAlive bool `json:"keep_alive,omitempty"`
	// NoWait: the next event (of the same subscription, real websocket upstream only) is emitted without waiting
	// for the delivery of this one - a burst; the frames are then read and checked in emission order
	NoWait bool `json:"no_wait,omitempty"`
	// Fragmented: the real websocket upstream sends this data message as a fragmented websocket message (two frames)
	Fragmented bool `json:"fragmented,omitempty"`
	// EmptyErrors: the upstream sends "errors": [] next to the data (many servers always send the key): no error at all
	EmptyErrors bool `json:"empty_errors,omitempty"`
	// ChildFail (with Partial): the services answer the child requests of this event with status 500; the upstream's
	// own errors must still reach the client (C10), whatever else is reported
	ChildFail bool `json:"child_fail,omitempty"`
}

// extraKey reports a key of got that the reference answer does not have at the same place (a helper field that was not removed).
func extraKey(exp, got interface{}, path string) string {
	switch g := got.(type) {
	case map[string]interface{}:
		e, ok := exp.(map[string]interface{})
		if !ok {
			return ""
		}
		for k, gv := range g {
			ev, has := e[k]
			if !has {
				return path + "." + k
			}
			if x := extraKey(ev, gv, path+"."+k); x != "" {
				return x
			}
		}
	case []interface{}:
		e, ok := exp.([]interface{})
		if !ok || len(e) != len(g) {
			return ""
		}
		for i := range g {
			if x := extraKey(e[i], g[i], fmt.Sprintf("%s[%d]", path, i)); x != "" {
				return x
			}
		}
	}
	return ""
}

type SubSpec struct {
	Conn  int      `json:"conn"`
	ID    string   `json:"id"`
	Op    opgen.Op `json:"op"`
	Field string   `json:"field"` // subscription root field name
}

// SubCase: subscriptions over 1..2 client connections and the ordered upstream events.
type SubCase struct {
	World  *world.World `json:"world"`
	Config gwx.Config   `json:"config"`
	Conns  int          `json:"conns"`
	Subs   []SubSpec    `json:"subs"`
	Events []SubEvent   `json:"events"`
	RealWS bool         `json:"real_ws,omitempty"` // upstream is a real graphql-ws server on loopback (queryer.Subscribe is exercised)
	// ChangingData: the data of all services changes between events (an event about the same object must carry its current fields)
	ChangingData bool `json:"changing_data,omitempty"`
}

func subRootField(union *ast.Schema, op *opgen.Op) (string, *ast.OperationDefinition) {
	doc, errs := gqlparser.LoadQuery(union, op.Query)
	if errs != nil {
		return "", nil
	}
	o, err := refexec.PickOperation(doc, op.OperationName)
	if err != nil || o.Operation != ast.Subscription {
		return "", nil
	}
	var names []string
	for _, s := range o.SelectionSet {
		if f, ok := s.(*ast.Field); ok {
			names = append(names, f.Name)
		} else {
			return "", nil
		}
	}
	if len(names) != 1 || strings.HasPrefix(names[0], "__") {
		return "", nil
	}
	return names[0], o
}

// serviceEventAnswer computes what the owning service sends for one event: its own execution of the root sub-query.
func serviceEventAnswer(net *fake.Net, url, query string, opName *string, vars map[string]interface{}, field string, value interface{}) (map[string]interface{}, error) {
	svc := net.Services[url]
	if svc == nil {
		return nil, fmt.Errorf("no service %s", url)
	}
	ex := &refexec.Executor{Schema: svc.Schema, Store: svc.Store, RootOverride: map[string]interface{}{"Subscription." + field: value}}
	doc, errs := ex.Parse(query)
	if errs != nil {
		return nil, fmt.Errorf("root subscription query is invalid for %s: %v\n%s", url, errs, query)
	}
	r := ex.Execute(doc, opName, vars)
	if len(r.Errors) > 0 {
		return nil, fmt.Errorf("service execution: %v", r.Errors)
	}
	m, _ := refexec.Normalize(r.Data).(map[string]interface{})
	return m, nil
}

type subRuntime struct {
	spec   SubSpec
	up     *subx.UpSub
	ws     *subx.WSSub
	url    string
	query  string
	vars   map[string]interface{}
	opName *string
	// childLevels: per service the number of plan levels below the root step at which it appears (nil: unknown)
	childLevels map[string]int
}

// childLevelsPerService is depthsPerService without the root steps (the root step of a subscription is the upstream subscription).
func childLevelsPerService(plan *planner.QueryPlan) map[string]int {
	levels := map[string]map[int]bool{}
	walkSteps(plan.RootSteps, 0, func(s *planner.QueryPlanStep, depth int) {
		if depth == 0 {
			return
		}
		if levels[s.URL] == nil {
			levels[s.URL] = map[int]bool{}
		}
		levels[s.URL][depth] = true
	})
	res := map[string]int{}
	for u, l := range levels {
		res[u] = len(l)
	}
	return res
}

func checkC17(c *SubCase) (*ev.Failure, string) {
	union, err := c.World.UnionSchema()
	if err != nil {
		return ev.Failf("harness", "%v", err), ""
	}
	w := c.World
	var wsSrv *subx.WSServer
	var net *fake.Net
	if c.RealWS {
		// the real queryer dials the service URL: serve everything from one loopback server per world
		// (sub-requests of child steps arrive over real HTTP and are handed to the fake net)
		var handlerNet *fake.Net
		wsSrv = subx.NewWSServer(nil)
		defer wsSrv.Close()
		w2 := *c.World
		w2.Services = append([]world.Service{}, c.World.Services...)
		for i := range w2.Services {
			w2.Services[i].URL = fmt.Sprintf("%s/svc%d", wsSrv.Server.URL, i)
		}
		w = &w2
		handlerNet, err = fake.NewNet(w)
		if err != nil {
			return ev.Failf("harness", "%v", err), ""
		}
		net = handlerNet
	} else {
		net, err = fake.NewNet(w)
		if err != nil {
			return ev.Failf("harness", "%v", err), ""
		}
	}
	up := subx.NewUpstream(net)
	var gw *pebbles.Gateway
	if c.RealWS {
		gw, err = gwx.Build(w, net, c.Config) // real MultiOpQueryer; Query goes through the fake transport keyed by the loopback URLs
	} else {
		gw, err = gwx.BuildWithFactory(w, net, c.Config, up.Factory())
	}
	if err != nil {
		return ev.Failf("harness", "world does not merge: %v", err), ""
	}
	conns := make([]*subx.ClientConn, c.Conns)
	for i := range conns {
		cc, err := subx.Connect(gw)
		if err != nil {
			return ev.Failf("handshake", "%v", err), ""
		}
		defer cc.Close()
		conns[i] = cc
		cc.SendJSON(map[string]interface{}{"type": "connection_init"})
		f, ok := cc.Next(3 * time.Second)
		if !ok || f.Err != "" || f.Msg["type"] != "connection_ack" {
			return ev.Failf("handshake", "no connection_ack: %+v", f), ""
		}
	}
	subs := make([]*subRuntime, len(c.Subs))
	for i, sp := range c.Subs {
		rt := &subRuntime{spec: sp}
		subs[i] = rt
		if plan, _, perr := planOf(&ExecCase{World: c.World, Config: c.Config, Op: sp.Op}); perr == nil && plan != nil {
			rt.childLevels = childLevelsPerService(plan)
		}
		payload := map[string]interface{}{"query": sp.Op.Query}
		if sp.Op.Variables != nil {
			payload["variables"] = sp.Op.Variables
		}
		if sp.Op.OperationName != nil {
			payload["operationName"] = *sp.Op.OperationName
		}
		conns[sp.Conn].SendJSON(map[string]interface{}{"type": "start", "id": sp.ID, "payload": payload})
		if c.RealWS {
			select {
			case s := <-wsSrv.NewSub:
				rt.ws = s
				rt.query, _ = s.Start["query"].(string)
				rt.vars, _ = s.Start["variables"].(map[string]interface{})
				if on, ok := s.Start["operationName"].(string); ok {
					rt.opName = &on
				}
				// the owning service is found through the field owner
				for _, os := range ownersOf(w)["Subscription."+sp.Field] {
					rt.url = w.Services[os].URL
				}
			case <-time.After(20 * time.Second):
				return ev.Failf("not-started", "subscription %s was not started upstream within 20s", sp.ID), ""
			case <-conns[sp.Conn].HandlerDone:
				return ev.Failf("not-started", "the gateway dropped the connection on a valid subscription start (%s)", sp.Op.Query), ""
			}
		} else {
			select {
			case s := <-up.NewSub:
				rt.up = s
				rt.url, rt.query, rt.vars, rt.opName = s.URL, s.Req.Query, s.Req.Variables, s.Req.OperationName
			case <-time.After(20 * time.Second):
				return ev.Failf("not-started", "subscription %s was not started upstream within 20s", sp.ID), ""
			case <-conns[sp.Conn].HandlerDone:
				return ev.Failf("not-started", "the gateway dropped the connection on a valid subscription start (%s)", sp.Op.Query), ""
			}
		}
	}
	ref := &refexec.Executor{Schema: union, Store: c.World.Store}
	delivered := 0
	type pendingEvent struct {
		k        int
		e        SubEvent
		sp       SubSpec
		expected map[string]interface{}
	}
	var pending []pendingEvent
	verify := func(p pendingEvent) (*ev.Failure, string) {
		k, e, sp, expected := p.k, p.e, p.sp, p.expected
		// the client must now receive exactly this event on this id (events are emitted one at a time)
		f, ok := conns[sp.Conn].Next(20 * time.Second)
		if !ok {
			if f.Err == "timeout" {
				return ev.Failf("lost", "event %d of subscription %s (%s) was not delivered within 20s", k, sp.ID, trunc(sp.Op.Query, 150)), ""
			}
			return ev.Failf("lost", "connection ended before event %d of subscription %s was delivered", k, sp.ID), ""
		}
		if f.Err != "" {
			return ev.Failf("frame", "malformed frame from the gateway: %s (%s)", f.Err, subx.Dump(f.Payload)), ""
		}
		if f.Msg["type"] != "data" {
			return ev.Failf("wrong-type", "expected a data message for event %d, got %s", k, trunc(string(f.Payload), 200)), ""
		}
		if f.Msg["id"] != sp.ID {
			return ev.Failf("wrong-id", "event %d of subscription %s arrived under id %v", k, sp.ID, f.Msg["id"]), ""
		}
		pl, _ := f.Msg["payload"].(map[string]interface{})
		if e.Error {
			if l, _ := pl["errors"].([]interface{}); len(l) == 0 {
				return ev.Failf("error-not-forwarded", "upstream errors of event %d were not forwarded: %s", k, trunc(string(f.Payload), 300)), ""
			}
			delivered++
			return nil, ""
		}
		if e.Partial {
			// errors forwarded; whatever data comes with them carries no helper field
			if l, _ := pl["errors"].([]interface{}); len(l) == 0 {
				return ev.Failf("error-not-forwarded", "upstream errors of partial event %d were not forwarded: %s", k, trunc(string(f.Payload), 300)), ""
			}
			if e.ChildFail {
				found := false
				for _, x := range pl["errors"].([]interface{}) {
					if m, _ := x.(map[string]interface{}); m != nil && strings.Contains(fmt.Sprint(m["message"]), "partial failure") {
						found = true
					}
				}
				if !found {
					return ev.Failf("error-lost:upstream", "event %d of subscription %s: the upstream sent data with the error \"partial failure %d\" and the child requests failed; the upstream's error did not reach the client: %s", k, sp.ID, k, trunc(string(f.Payload), 400)), ""
				}
				delivered++
				return nil, ""
			}
			if x := extraKey(map[string]interface{}(expected), refexec.Normalize(pl["data"]), "data"); x != "" {
				return ev.Failf("payload-mismatch:extra-key", "event %d of subscription %s (%s), delivered with upstream errors, carries %s which the client did not select: %s", k, sp.ID, trunc(sp.Op.Query, 150), x, trunc(string(f.Payload), 400)), ""
			}
			delivered++
			return nil, ""
		}
		if l, _ := pl["errors"].([]interface{}); len(l) > 0 {
			return ev.Failf("payload-errors", "event %d of subscription %s (%s) delivered with errors: %s", k, sp.ID, trunc(sp.Op.Query, 150), trunc(string(f.Payload), 400)), ""
		}
		got, _ := refexec.Prune(refexec.Normalize(pl["data"])).(map[string]interface{})
		if got == nil {
			got = map[string]interface{}{}
		}
		if cls, msg := refexec.Diff(expected, got, "data"); cls != "" {
			return ev.Failf("payload-mismatch:"+cls, "event %d of subscription %s (%s): %s\nexpected %s\nobserved %s", k, sp.ID, trunc(sp.Op.Query, 150), msg, trunc(jsonOf(expected), 600), trunc(jsonOf(got), 600)), ""
		}
		delivered++
		return nil, ""
	}
	atomic.StoreInt32(&c.World.Store.Epoch, 0)
	defer atomic.StoreInt32(&c.World.Store.Epoch, 0)
	for k, e := range c.Events {
		rt := subs[e.Sub]
		sp := rt.spec
		var expected map[string]interface{}
		if len(pending) == 0 {
			net.Reset() // the calls logged from here on belong to this event
		}
		if c.ChangingData && len(pending) == 0 {
			atomic.AddInt32(&c.World.Store.Epoch, 1) // nothing is in flight: from here on every service answers with other values
		}
		if e.KeepAlive && c.RealWS {
			// a keep-alive of the service is not an event and ends nothing
			rt.ws.Send(map[string]interface{}{"type": "ka"})
		}
		if e.Error {
			if !c.RealWS {
				continue // upstream error messages are exercised through the real websocket upstream only
			}
			rt.ws.Send(map[string]interface{}{"type": "data", "id": rt.ws.ID, "payload": map[string]interface{}{"data": nil, "errors": []interface{}{map[string]interface{}{"message": fmt.Sprintf("upstream error %d", k)}}}})
		}
		if !e.Error {
			ans, err := serviceEventAnswer(net, rt.url, rt.query, rt.opName, rt.vars, sp.Field, e.Value)
			if err != nil {
				return ev.Failf("root-subquery", "%v", err), ""
			}
			ref.RootOverride = map[string]interface{}{"Subscription." + sp.Field: e.Value}
			doc, _ := ref.Parse(sp.Op.Query)
			rr := ref.Execute(doc, sp.Op.OperationName, sp.Op.Variables)
			if len(rr.Errors) > 0 {
				return nil, "skip:reference-errors"
			}
			full := refexec.Normalize(rr.Data)
			expected, _ = refexec.Prune(refexec.Normalize(rr.Data)).(map[string]interface{})
			if e.Partial {
				expected, _ = full.(map[string]interface{})
			}
			payload := map[string]interface{}{"data": ans}
			resp := &requests.Response{Data: ans}
			if e.EmptyErrors && !e.Partial {
				payload["errors"] = []interface{}{}
				resp.Errors = gqlerrors.ErrorList{}
			}
			if e.Partial {
				payload["errors"] = []interface{}{map[string]interface{}{"message": fmt.Sprintf("partial failure %d", k)}}
				resp.Errors = gqlerrors.ErrorList{gqlerrors.NewError("PARTIAL", fmt.Errorf("partial failure %d", k))}
			}
			if e.Partial && e.ChildFail {
				net.SetFault(func(callIdx int, url string, reqs []*fake.Received, normal []map[string]interface{}) *fake.FaultResponse {
					if len(reqs) > 0 && strings.Contains(reqs[0].Query, "node(id: $id)") {
						return &fake.FaultResponse{Status: 500, Body: []byte(`{"errors":[{"message":"child service down"}]}`)}
					}
					return nil
				})
			}
			if c.RealWS {
				send := rt.ws.Send
				if e.Fragmented {
					send = rt.ws.SendFragmented // one message in two websocket frames
				}
				if err := send(map[string]interface{}{"type": "data", "id": rt.ws.ID, "payload": payload}); err != nil {
					return ev.Failf("upstream-closed", "the gateway closed the upstream connection of an active subscription: %v", err), ""
				}
			} else {
				if ok, err := rt.up.Emit(resp, 3*time.Second); !ok {
					return ev.Failf("lost", "event %d of subscription %s was not taken by the gateway: %v", k, sp.ID, err), ""
				}
			}
		}
		pending = append(pending, pendingEvent{k: k, e: e, sp: sp, expected: expected})
		if e.NoWait && c.RealWS && k+1 < len(c.Events) && c.Events[k+1].Sub == e.Sub {
			continue // burst: the next event follows at once
		}
		single := len(pending) == 1
		for _, p := range pending {
			if f, skip := verify(p); f != nil || skip != "" {
				return f, skip
			}
		}
		pending = nil
		net.SetFault(nil)
		// stitching one event costs what a query costs (C12): per service at most one batched call per plan level
		if single && !c.RealWS && !e.Error && !e.Partial && rt.childLevels != nil && c.Config.MaxBatch == 0 {
			for url, n := range callsPerService(net.Snapshot()) {
				if n > rt.childLevels[url] {
					return ev.Failf("calls-exceed", "event %d of subscription %s (%s): service %s received %d batched calls for one event but appears at %d plan level(s) below the root", k, sp.ID, trunc(sp.Op.Query, 150), url, n, rt.childLevels[url]), ""
				}
			}
		}
	}
	// nothing else is pending on any connection (no duplicates)
	for i, cc := range conns {
		select {
		case f, ok := <-cc.Frames:
			if ok && !(f.Msg != nil && f.Msg["type"] == "ka") {
				return ev.Failf("duplicated", "connection %d received an extra message after all events were matched: %s", i, trunc(string(f.Payload), 200)), ""
			}
		case <-time.After(2 * time.Millisecond):
		}
	}
	return nil, fmt.Sprintf("delivered=%d", minInt(delivered, 8))
}

func genSubCase(t *rapid.T, rec *ev.Recorder) (*SubCase, []string) {
	wopt := world.DefaultOptions()
	wopt.Subscriptions = true
	wopt.MinServices = 2
	m := world.Generate(t, wopt)
	w := m.Build()
	w.Store = world.GenerateStore(t, m, world.DefaultStoreOptions())
	union, err := w.UnionSchema()
	if err != nil {
		t.Fatalf("generator bug: %v", err)
	}
	c := &SubCase{World: w, Conns: rapid.IntRange(1, 2).Draw(t, "conns"), RealWS: rapid.IntRange(0, 4).Draw(t, "realws") == 0,
		ChangingData: rapid.IntRange(0, 2).Draw(t, "changingdata") == 0}
	c.Config.IDHint = rapid.IntRange(0, 2).Draw(t, "hint") == 0
	if !gateClosed("sub.cachedPlanner") && rapid.IntRange(0, 2).Draw(t, "cached") == 0 {
		c.Config.Planner, c.Config.TTLNs = "cached", int64(time.Hour)
	}
	nsubs := rapid.IntRange(1, 3).Draw(t, "nsubs")
	labels := []string{}
	for i := 0; i < nsubs; i++ {
		o := opgen.DefaultOptions()
		o.OpType = ast.Subscription
		o.MaxRoot = 1
		o.MaxDepth = rapid.SampledFrom([]int{3, 3, 4, 5, 6}).Draw(t, "maxdepth") // lists below several nested objects need depth
		o.IDs = entityIDs(w.Store)
		o.MultiOp = false
		applyGates(&o)
		op := opgen.Generate(t, union, o)
		if op == nil {
			continue
		}
		field, _ := subRootField(union, op)
		if field == "" {
			continue
		}
		ec := &ExecCase{World: w, Op: *op}
		if g := closedGateIn(caseFeatures(ec)); g != "" {
			rec.Exclude(g)
			continue
		}
		c.Subs = append(c.Subs, SubSpec{Conn: rapid.IntRange(0, c.Conns-1).Draw(t, "conn"), ID: fmt.Sprintf("s%d", i+1), Op: *op, Field: field})
		// the same operation subscribed twice (with the caching planner both share one plan)
		if i+1 < nsubs && rapid.IntRange(0, 2).Draw(t, "again") == 0 {
			i++
			op2 := *op
			if doc, errs := gqlparser.LoadQuery(union, op.Query); errs == nil && len(op.Variables) > 0 && rapid.Bool().Draw(t, "againothervars") {
				// the second start leaves out the variables that have a declared default (the first one supplied values)
				vars := map[string]interface{}{}
				for k, v := range op.Variables {
					vars[k] = v
				}
				dropped := false
				for _, o := range doc.Operations {
					for _, vd := range o.VariableDefinitions {
						if _, has := vars[vd.Variable]; has && vd.DefaultValue != nil {
							delete(vars, vd.Variable)
							dropped = true
						}
					}
				}
				if dropped {
					op2.Variables = vars
					labels = append(labels, "sameOperationTwiceOtherVariables")
				}
			}
			c.Subs = append(c.Subs, SubSpec{Conn: rapid.IntRange(0, c.Conns-1).Draw(t, "conn2"), ID: fmt.Sprintf("s%d", i+1), Op: op2, Field: field})
			labels = append(labels, "sameOperationTwice")
		}
	}
	if len(c.Subs) == 0 {
		return nil, nil
	}
	nev := rapid.IntRange(0, 8).Draw(t, "nevents")
	for k := 0; k < nev; k++ {
		si := rapid.IntRange(0, len(c.Subs)-1).Draw(t, "evsub")
		vals := world.GenerateEvents(t, m, w.Store, "Subscription", c.Subs[si].Field, 1)
		e := SubEvent{Sub: si, Value: vals[0]}
		if c.RealWS && rapid.IntRange(0, 9).Draw(t, "everr") == 0 {
			e = SubEvent{Sub: si, Error: true}
			labels = append(labels, "upstreamErrors")
		}
		if c.RealWS && rapid.IntRange(0, 3).Draw(t, "evka") == 0 {
			e.KeepAlive = true
			labels = append(labels, "upstreamKeepAlive")
		}
		if !e.Error && rapid.IntRange(0, 5).Draw(t, "evemptyerrors") == 0 {
			e.EmptyErrors = true
			labels = append(labels, "upstreamEmptyErrorsList")
		}
		if c.RealWS && !e.Error && rapid.IntRange(0, 4).Draw(t, "evfrag") == 0 {
			e.Fragmented = true
			labels = append(labels, "upstreamFragmentedMessage")
		}
		if !e.Error && rapid.IntRange(0, 7).Draw(t, "evpartial") == 0 {
			e.Partial = true
			labels = append(labels, "upstreamErrorsWithData")
			if rapid.IntRange(0, 2).Draw(t, "evchildfail") == 0 {
				e.ChildFail = true
				labels = append(labels, "partialEventWithFailingChildRequests")
			}
		}
		c.Events = append(c.Events, e)
	}
	if c.RealWS && len(c.Subs) > 0 && rapid.IntRange(0, 3).Draw(t, "burst") == 0 {
		// a burst: 5..40 events of one subscription emitted back to back
		si := rapid.IntRange(0, len(c.Subs)-1).Draw(t, "burstsub")
		n := rapid.IntRange(5, 40).Draw(t, "burstlen")
		vals := world.GenerateEvents(t, m, w.Store, "Subscription", c.Subs[si].Field, n)
		for _, v := range vals {
			c.Events = append(c.Events, SubEvent{Sub: si, Value: v, NoWait: true})
		}
		labels = append(labels, "eventBurst")
	}
	if c.RealWS {
		labels = append(labels, "realWebsocketUpstream")
	}
	labels = append(labels, fmt.Sprintf("subs=%d", len(c.Subs)), fmt.Sprintf("conns=%d", c.Conns), "planner="+c.Config.Planner)
	return c, labels
}

func TestC17(t *testing.T) {
	rec := ev.Get("C17")
	rec.Rule = "worlds with Subscription fields whose payload crosses services x 1..3 generated subscription operations over 1..2 client connections (harness-owned net.Pipe through an http.Hijacker) x 0..8 upstream events in a drawn order, each event's root value drawn from the store; in a third of the cases every leaf value of every service changes between events (data epochs); selections reach depth 3..6; a sixth of the events carry an empty errors list next to their data; a repeated start of an operation may leave out the variables that have declared defaults; a third of the partial events have failing child requests (the upstream's error must still reach the client); the real upstream sends keep-alives and a fifth of its data messages in two websocket frames; upstream either an in-process scripted Queryer (80%) or a real graphql-ws server on loopback behind the real MultiOpQueryer.Subscribe (20%, also upstream errors); the upstream answers every event by executing the gateway's own root sub-query on the owning service's schema. Oracle: after each emission the subscribing connection receives exactly one data message with that subscription's id whose payload equals the reference executor on the union schema (pruned), upstream errors are forwarded as errors, nothing extra arrives, and (scripted upstream, default batch size) per event and service the number of batched calls is at most the number of plan levels below the root; non-trivial = >=2 events and a payload needing >=1 child step, or >=2 concurrent subscriptions; distinct by hash(case)"
	defer census.dump("C17")
	rapid.Check(t, func(t *rapid.T) {
		c, labels := genSubCase(t, rec)
		if c == nil {
			rec.Class("skip:no-subscription-op", 1)
			return
		}
		ev.Current("C17", c)
		f, class := checkC17(c)
		if strings.HasPrefix(class, "skip:") {
			rec.Class(class, 1)
			return
		}
		// a payload needs a child step if the plan of some subscription has Then steps
		cross := false
		for _, sp := range c.Subs {
			ec := &ExecCase{World: c.World, Op: sp.Op}
			if p, _, err := planOf(ec); err == nil {
				for _, rs := range p.RootSteps {
					if len(rs.Then) > 0 {
						cross = true
					}
				}
			}
		}
		if cross {
			labels = append(labels, "childSteps")
		}
		nt := (len(c.Events) >= 2 && cross) || len(c.Subs) >= 2
		labels = append(labels, class, fmt.Sprintf("events=%d", minInt(len(c.Events), 8)))
		rec.Case(ev.Hash(c), nt, labels...)
		rec.Sample(nt, func() interface{} {
			s := *c
			s.World = nil
			return s
		})
		if f != nil {
			if isCensus() {
				census.add(f.Signature, trunc(f.Message, 700))
				census.keep("C17", f.Signature, c, f.Message)
				return
			}
			if only := onlySig(); only != "" && !strings.HasPrefix(f.Signature, only) {
				return
			}
			ev.WriteFail("C17", c, f)
			t.Fatalf("%v", f)
		}
	})
}

func init() {
	replayers["C17"] = func(path string) (*ev.Failure, error) {
		var c SubCase
		if _, _, err := ev.LoadCase(path, &c); err != nil {
			return nil, err
		}
		if c.Conns < 1 {
			c.Conns = 1
		}
		f, class := checkC17(&c)
		if f == nil && strings.HasPrefix(class, "skip:") {
			return nil, fmt.Errorf("replay case outside the domain: %s", class)
		}
		return f, nil
	}
	_ = json.Marshal
}
