#!/bin/bash
# dev helper: ./t.sh TestName checks [extra go test args]; prints the failing case file
export GOFLAGS=-mod=mod GOPROXY=off GOSUMDB=off GOTOOLCHAIN=local
rm -rf /dev/shm/vdev; mkdir -p /dev/shm/vdev
rm -rf /verif/harness/props/testdata; cd /verif/harness
T=$1; N=${2:-1000}; shift; shift
VERIF_OUT=/dev/shm/vdev go test -tags verif -count=1 -run "^$T\$" ./props -rapid.checks=$N -rapid.shrinktime=15s "$@" 2>&1 | grep -v '\[rapid\] draw' | tail -30
ls /dev/shm/vdev
