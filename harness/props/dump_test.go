package props

import (
	"encoding/json"
	"fmt"
	"os"
	"testing"

	"pgregory.net/rapid"

	"verif/harness/world"
)

func TestDumpWorld(t *testing.T) {
	if os.Getenv("VERIF_DUMP") == "" {
		t.Skip()
	}
	n := 0
	rapid.Check(t, func(t *rapid.T) {
		m := world.Generate(t, world.DefaultOptions())
		w := m.Build()
		w.Store = world.GenerateStore(t, m, world.DefaultStoreOptions())
		n++
		if n%37 == 0 && m.NServices >= 2 {
			for _, s := range w.Services {
				fmt.Println("#####", s.URL)
				fmt.Println(s.SDL)
			}
			fmt.Println("##### UNION")
			fmt.Println(w.UnionSDL)
			b, _ := json.MarshalIndent(w.Store, "", " ")
			fmt.Println(string(b))
		}
	})
}
