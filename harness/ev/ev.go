// Package ev records what a property run actually explored and persists
// failing / in-flight cases so the driver can turn them into replay files.
package ev

import (
	"encoding/base64"
	"encoding/binary"
	"encoding/json"
	"fmt"
	"hash/fnv"
	"os"
	"path/filepath"
	"sort"
	"sync"
	"time"
)

// Failure is what an oracle returns when a case violates the property.
type Failure struct {
	Signature string `json:"signature"`
	Message   string `json:"message"`
}

func (f *Failure) Error() string { return f.Signature + ": " + f.Message }

func Failf(sig, format string, args ...interface{}) *Failure {
	return &Failure{Signature: sig, Message: fmt.Sprintf(format, args...)}
}

type Recorder struct {
	mu          sync.Mutex
	ID          string
	Evaluations int
	Classes     map[string]int
	Excluded    map[string]int
	Extra       map[string]interface{}
	nontrivial  map[uint64]struct{}
	distinct    map[uint64]struct{}
	Samples     []interface{}
	maxSamples  int
	anySamples  int
	started     time.Time
	Exhaustive  bool
	Rule        string
}

var (
	regMu sync.Mutex
	reg   = map[string]*Recorder{}
)

func Get(id string) *Recorder {
	regMu.Lock()
	defer regMu.Unlock()
	r := reg[id]
	if r == nil {
		r = &Recorder{ID: id, Classes: map[string]int{}, Excluded: map[string]int{}, Extra: map[string]interface{}{},
			nontrivial: map[uint64]struct{}{}, distinct: map[uint64]struct{}{}, maxSamples: 6, started: time.Now()}
		reg[id] = r
	}
	return r
}

func Hash(parts ...interface{}) uint64 {
	h := fnv.New64a()
	for _, p := range parts {
		switch v := p.(type) {
		case string:
			h.Write([]byte(v))
		case []byte:
			h.Write(v)
		default:
			b, _ := json.Marshal(v)
			h.Write(b)
		}
		h.Write([]byte{0})
	}
	return h.Sum64()
}

// Case counts one evaluated case. hash identifies the case for distinctness.
func (r *Recorder) Case(hash uint64, nontrivial bool, classes ...string) {
	r.mu.Lock()
	defer r.mu.Unlock()
	r.Evaluations++
	r.distinct[hash] = struct{}{}
	if nontrivial {
		r.nontrivial[hash] = struct{}{}
	}
	for _, c := range classes {
		if c != "" {
			r.Classes[c]++
		}
	}
}

func (r *Recorder) Class(c string, n int) {
	r.mu.Lock()
	r.Classes[c] += n
	r.mu.Unlock()
}

func (r *Recorder) Exclude(gate string) {
	r.mu.Lock()
	r.Excluded[gate]++
	r.mu.Unlock()
}

func (r *Recorder) SetExtra(k string, v interface{}) {
	r.mu.Lock()
	r.Extra[k] = v
	r.mu.Unlock()
}

func (r *Recorder) AddExtra(k string, n int) {
	r.mu.Lock()
	cur, _ := r.Extra[k].(int)
	r.Extra[k] = cur + n
	r.mu.Unlock()
}

// Sample keeps a few cases: the first ones and then sparse later ones.
func (r *Recorder) Sample(nontrivial bool, mk func() interface{}) {
	r.mu.Lock()
	defer r.mu.Unlock()
	if !nontrivial {
		if r.anySamples < 1 {
			r.anySamples++
			r.Samples = append(r.Samples, mk())
		}
		return
	}
	n := len(r.nontrivial)
	if len(r.Samples) < r.maxSamples/2 || (len(r.Samples) < r.maxSamples && n%97 == 0) {
		r.Samples = append(r.Samples, mk())
	}
}

type shardFile struct {
	ID          string                 `json:"id"`
	Shard       string                 `json:"shard"`
	Evaluations int                    `json:"evaluations"`
	Classes     map[string]int         `json:"classes"`
	Excluded    map[string]int         `json:"excluded"`
	Extra       map[string]interface{} `json:"extra"`
	Nontrivial  string                 `json:"nontrivial_b64"`
	Distinct    int                    `json:"distinct"`
	Samples     []interface{}          `json:"samples"`
	Exhaustive  bool                   `json:"exhaustive"`
	Rule        string                 `json:"rule"`
	WallS       float64                `json:"wall_s"`
}

func outDir() string { return os.Getenv("VERIF_OUT") }
func Shard() string {
	s := os.Getenv("VERIF_SHARD")
	if s == "" {
		s = "0"
	}
	return s
}
func Tier() string {
	s := os.Getenv("VERIF_TIER")
	if s == "" {
		s = "quick"
	}
	return s
}
func Thorough() bool { return Tier() == "thorough" }

// Flush writes all recorders to $VERIF_OUT/stats-<id>-<shard>.json.
func Flush() {
	dir := outDir()
	if dir == "" {
		return
	}
	regMu.Lock()
	defer regMu.Unlock()
	for _, r := range reg {
		r.mu.Lock()
		keys := make([]uint64, 0, len(r.nontrivial))
		for k := range r.nontrivial {
			keys = append(keys, k)
		}
		sort.Slice(keys, func(i, j int) bool { return keys[i] < keys[j] })
		buf := make([]byte, 8*len(keys))
		for i, k := range keys {
			binary.LittleEndian.PutUint64(buf[i*8:], k)
		}
		sf := shardFile{ID: r.ID, Shard: Shard(), Evaluations: r.Evaluations, Classes: r.Classes, Excluded: r.Excluded,
			Extra: r.Extra, Nontrivial: base64.StdEncoding.EncodeToString(buf), Distinct: len(r.distinct),
			Samples: r.Samples, Exhaustive: r.Exhaustive, Rule: r.Rule, WallS: time.Since(r.started).Seconds()}
		b, _ := json.Marshal(sf)
		r.mu.Unlock()
		_ = os.WriteFile(filepath.Join(dir, fmt.Sprintf("stats-%s-%s.json", r.ID, Shard())), b, 0o644)
	}
}

type caseFile struct {
	Property  string      `json:"property"`
	Signature string      `json:"signature,omitempty"`
	Message   string      `json:"message,omitempty"`
	Case      interface{} `json:"case"`
}

// WriteFail persists a failing case (overwriting: rapid re-runs the minimal case last).
func WriteFail(id string, c interface{}, f *Failure) string {
	dir := outDir()
	if dir == "" {
		return ""
	}
	p := filepath.Join(dir, fmt.Sprintf("fail-%s-%s.json", id, Shard()))
	b, _ := json.MarshalIndent(caseFile{Property: id, Signature: f.Signature, Message: f.Message, Case: c}, "", " ")
	atomicWrite(p, b)
	return p
}

func atomicWrite(p string, b []byte) {
	tmp := p + ".tmp"
	if err := os.WriteFile(tmp, b, 0o644); err == nil {
		_ = os.Rename(tmp, p)
	}
}

// Current persists the case about to be executed, for attribution if the process dies.
func Current(id string, c interface{}) {
	dir := outDir()
	if dir == "" {
		return
	}
	p := filepath.Join(dir, fmt.Sprintf("current-%s-%s.json", id, Shard()))
	b, _ := json.Marshal(caseFile{Property: id, Case: c})
	atomicWrite(p, b)
}

// LoadCase reads a replay file into dst (the Case part) and returns property + recorded signature.
func LoadCase(path string, dst interface{}) (prop, sig string, err error) {
	b, err := os.ReadFile(path)
	if err != nil {
		return "", "", err
	}
	var raw struct {
		Property  string          `json:"property"`
		Signature string          `json:"signature"`
		Case      json.RawMessage `json:"case"`
	}
	if err := json.Unmarshal(b, &raw); err != nil {
		return "", "", err
	}
	if dst != nil {
		if err := json.Unmarshal(raw.Case, dst); err != nil {
			return raw.Property, raw.Signature, err
		}
	}
	return raw.Property, raw.Signature, nil
}

// ReplayResult is written by TestReplay for the driver.
type ReplayResult struct {
	Property  string `json:"property"`
	Failed    bool   `json:"failed"`
	Signature string `json:"signature,omitempty"`
	Message   string `json:"message,omitempty"`
}

func WriteReplayResult(r ReplayResult) {
	dir := outDir()
	if dir == "" {
		return
	}
	b, _ := json.Marshal(r)
	_ = os.WriteFile(filepath.Join(dir, "replay-result.json"), b, 0o644)
}
