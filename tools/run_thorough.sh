#!/bin/bash
# runs the thorough tier of every registered check, one after the other; log per check under /verif/.scratch/thorough/
cd /verif; mkdir -p .scratch/thorough
ids=${@:-$(python3 -c "import json; print(' '.join(c['property_id'] for c in json.load(open('MANIFEST.json'))['checks']))")}
for id in $ids; do
  start=$(date +%s)
  ./check $id --tier thorough > .scratch/thorough/$id.log 2>&1; code=$?
  echo "$id exit=$code $(( $(date +%s) - start ))s $(tail -1 .scratch/thorough/$id.log)"
done
