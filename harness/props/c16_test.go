package props

import (
	"bytes"
	"encoding/json"
	"fmt"
	"io"
	"net/http"
	"runtime/debug"
	"sort"
	"strings"
	"testing"
	"time"

	"github.com/vektah/gqlparser/v2"
	"github.com/vektah/gqlparser/v2/ast"
	"github.com/vektah/gqlparser/v2/validator"
	"pgregory.net/rapid"

	pebbles "github.com/buildbuildio/pebbles"
	pintro "github.com/buildbuildio/pebbles/introspection"
	"github.com/buildbuildio/pebbles/queryer"

	"verif/harness/ev"
	"verif/harness/fake"
	"verif/harness/feat"
	"verif/harness/gwx"
	"verif/harness/introspect"
	"verif/harness/opgen"
	"verif/harness/refexec"
	"verif/harness/sdlgen"
	"verif/harness/world"
)

// canonLists sorts every list (introspection lists carry no meaningful order) and maps "" descriptions to null.
func canonLists(v interface{}) interface{} {
	switch x := v.(type) {
	case map[string]interface{}:
		for k, vv := range x {
			if s, ok := vv.(string); ok && s == "" {
				x[k] = nil // an absent description is reported as "" by the gateway and as null by the spec: not distinguished
				continue
			}
			x[k] = canonLists(vv)
		}
		return x
	case []interface{}:
		for i := range x {
			x[i] = canonLists(x[i])
		}
		sort.SliceStable(x, func(i, j int) bool { return canonical(x[i]) < canonical(x[j]) })
		return x
	}
	return v
}

func typeNames(s *ast.Schema) []string {
	var r []string
	for n := range s.Types {
		r = append(r, n)
	}
	sort.Strings(r)
	return r
}

// abstractWarmups builds up to four data operations `{ f { ... on A { __typename } } }` where f is a root field of
// abstract type T without required arguments and A another abstract type sharing a possible type with T.
func abstractWarmups(s *ast.Schema) []string {
	if s.Query == nil {
		return nil
	}
	var abstracts []string
	for n, d := range s.Types {
		if (d.Kind == ast.Interface || d.Kind == ast.Union) && !strings.HasPrefix(n, "__") {
			abstracts = append(abstracts, n)
		}
	}
	sort.Strings(abstracts)
	var out []string
	for _, f := range s.Query.Fields {
		if strings.HasPrefix(f.Name, "__") || hasRequiredArgument(f) {
			continue
		}
		t := s.Types[f.Type.Name()]
		if t == nil || t.Kind != ast.Interface && t.Kind != ast.Union {
			continue
		}
		mine := map[string]bool{}
		for _, pt := range s.PossibleTypes[t.Name] {
			mine[pt.Name] = true
		}
		for _, a := range abstracts {
			if a == t.Name {
				continue
			}
			shared := false
			for _, pt := range s.PossibleTypes[a] {
				if mine[pt.Name] {
					shared = true
				}
			}
			q := fmt.Sprintf("{ %s { ... on %s { __typename } } }", f.Name, a)
			if _, errs := gqlparser.LoadQuery(s, q); shared && errs == nil && len(out) < 4 {
				out = append(out, q)
			}
		}
	}
	return out
}

func hasRequiredArgument(f *ast.FieldDefinition) bool {
	for _, a := range f.Arguments {
		if a.Type.NonNull && a.DefaultValue == nil {
			return true
		}
	}
	return false
}

func checkC16(c *ExecCase) (*ev.Failure, string) {
	res, merr, pan := runMerge(c.World, c.Config.Order, c.Config.Merger)
	if pan != "" || merr != nil {
		return ev.Failf("harness", "world does not merge: %v %s", merr, pan), ""
	}
	merged := res.Schema
	doc, verrs := gqlparser.LoadQuery(merged, c.Op.Query)
	if verrs != nil {
		return nil, "skip:op-invalid"
	}
	op, perr := refexec.PickOperation(doc, c.Op.OperationName)
	if perr != nil {
		return nil, "skip:op-selection"
	}
	vars, verr := validator.VariableValues(merged, op, c.Op.Variables)
	if verr != nil {
		return nil, "skip:bad-variables"
	}
	r := &introspect.Resolver{Schema: merged, Vars: vars}
	expected := refexec.Normalize(r.ResolveRoot(op.SelectionSet, "Query"))

	net, err := fake.NewNet(c.World)
	if err != nil {
		return ev.Failf("harness", "%v", err), ""
	}
	gw, err := gwx.Build(c.World, net, c.Config)
	if err != nil {
		return ev.Failf("harness", "%v", err), ""
	}
	// ordinary data requests served before (fragments on one abstract type inside a field of another one make the
	// planner intersect possible types) must leave the schema the gateway reports and enforces as it was
	for _, q := range abstractWarmups(merged) {
		gwx.PostOp(gw, gwx.GQLRequest{Query: q}, 15*time.Second)
		net.Reset()
	}
	// an earlier request with the same text but other variable values must not influence the answer (plan cache)
	if wv := warmupVariables(c.Op.Variables, typeNames(merged)); wv != nil {
		gwx.PostOp(gw, gwx.GQLRequest{Query: c.Op.Query, Variables: wv, OperationName: c.Op.OperationName}, 15*time.Second)
		net.Reset()
	}
	// nor an earlier operation that differs only in the declared defaults of its variables
	if q2, _, ok := withOtherDefaults(merged, c.Op.Query); ok {
		gwx.PostOp(gw, gwx.GQLRequest{Query: q2, Variables: c.Op.Variables, OperationName: c.Op.OperationName}, 15*time.Second)
		net.Reset()
	}
	resp := gwx.PostOp(gw, gwx.GQLRequest{Query: c.Op.Query, Variables: c.Op.Variables, OperationName: c.Op.OperationName}, 15*time.Second)
	if resp.TimedOut {
		return ev.Failf("hang", "no response"), ""
	}
	if resp.Panic != "" {
		return ev.Failf("panic:"+gwx.PanicSite(resp.Panic), "%s", trunc(resp.Panic, 800)), ""
	}
	dec, derr := gwx.Decode(resp.Body)
	if derr != nil {
		return ev.Failf("envelope", "%v", derr), ""
	}
	if len(dec.Errors) > 0 {
		return ev.Failf("gateway-errors", "a valid introspection operation is answered with errors: %s", trunc(string(resp.Body), 400)), ""
	}
	if len(net.Snapshot()) > 0 {
		return ev.Failf("reached-downstream", "an introspection operation caused downstream requests"), ""
	}
	got := refexec.Normalize(map[string]interface{}(dec.Data))
	if cls, msg := refexec.Diff(canonLists(expected), canonLists(got), "data"); cls != "" {
		field := msg
		if i := strings.LastIndex(strings.SplitN(msg, ":", 2)[0], "."); i >= 0 {
			field = strings.SplitN(msg, ":", 2)[0][i+1:]
		}
		return ev.Failf("differs:"+metaFieldOf(field)+":"+cls, "%s", msg), ""
	}
	// the same operation answered concurrently with other variable values (elements of one batch): every element
	// is answered with its own variables
	if wv := warmupVariables(c.Op.Variables, typeNames(merged)); wv != nil {
		var batch []gwx.GQLRequest
		for i := 0; i < 8; i++ {
			v := c.Op.Variables
			if i%2 == 1 {
				v = wv
			}
			batch = append(batch, gwx.GQLRequest{Query: c.Op.Query, Variables: v, OperationName: c.Op.OperationName})
		}
		body, _ := json.Marshal(batch)
		br := gwx.Post(gw, body, "application/json", 15*time.Second)
		var raw []json.RawMessage
		if br.TimedOut || br.Panic != "" || json.Unmarshal(br.Body, &raw) != nil || len(raw) != len(batch) {
			return ev.Failf("envelope", "batch of introspection operations: status %d panic %q body %s", br.Status, trunc(br.Panic, 200), trunc(string(br.Body), 200)), ""
		}
		for i := 0; i < len(raw); i += 2 {
			d, derr := gwx.Decode(raw[i])
			if derr != nil || len(d.Errors) > 0 {
				return ev.Failf("gateway-errors", "element %d of a batch of introspection operations: %s", i, trunc(string(raw[i]), 300)), ""
			}
			if cls, msg := refexec.Diff(canonLists(expected), canonLists(refexec.Normalize(map[string]interface{}(d.Data))), "data"); cls != "" {
				return ev.Failf("differs:concurrent:"+cls, "element %d of a batch that mixes this operation with other variable values: %s", i, msg), ""
			}
		}
	}
	class := "partial"
	if c.Op.Query == introspect.StandardQuery {
		class = "standard"
		sdl, err := introspect.BuildSDL(dec.Data)
		if err != nil {
			return ev.Failf("client-rebuild:sdl", "a standard client cannot build a schema from the answer: %v", err), ""
		}
		back, err := gqlparser.LoadSchema(&ast.Source{Name: "rebuilt", Input: sdl})
		if err != nil {
			return ev.Failf("client-rebuild:load", "the rebuilt SDL does not load: %v", err), ""
		}
		a, b := c15Facts(merged), c15Facts(back)
		for _, f := range sortedFacts(a) {
			if !b[f] {
				return ev.Failf("client-rebuild:"+factKind(f)+":lost", "the schema rebuilt from the gateway's introspection lacks %q", f), ""
			}
		}
		for _, f := range sortedFacts(b) {
			if !a[f] {
				return ev.Failf("client-rebuild:"+factKind(f)+":invented", "the schema rebuilt from the gateway's introspection has %q which the enforced schema lacks", f), ""
			}
		}
		// "including another gateway": the gateway's own introspection client, pointed at this gateway, rebuilds the
		// same schema (directive repeatability aside: its query does not ask for it, open finding KF-C15-1)
		intro := &pintro.ParallelRemoteSchemaIntrospector{Factory: func(url string) queryer.Queryer {
			return queryer.NewMultiOpQueryer(url, 1).WithHTTPClient(&http.Client{Transport: gatewayTransport{gw}})
		}}
		var second []*ast.Schema
		var ierr error
		pan := ""
		func() {
			defer func() {
				if r := recover(); r != nil {
					pan = fmt.Sprintf("%v\n%s", r, debug.Stack())
				}
			}()
			second, ierr = intro.IntrospectRemoteSchemas("http://gateway-1.test/graphql")
		}()
		if pan != "" {
			return ev.Failf("gateway-rebuild:panic", "%s", trunc(pan, 800)), ""
		}
		if ierr != nil || len(second) != 1 {
			return ev.Failf("gateway-rebuild:error", "a second gateway cannot introspect this one: %v", ierr), ""
		}
		noRep := func(m map[string]bool) map[string]bool {
			out := map[string]bool{}
			for f := range m {
				out[strings.TrimSuffix(f, ":repeatable")] = true
			}
			return out
		}
		a2, b2 := noRep(a), noRep(c15Facts(second[0]))
		for _, f := range sortedFacts(a2) {
			if !b2[f] {
				return ev.Failf("gateway-rebuild:"+factKind(f)+":lost", "the schema a second gateway rebuilds from this gateway's introspection lacks %q", f), ""
			}
		}
		for _, f := range sortedFacts(b2) {
			if !a2[f] {
				return ev.Failf("gateway-rebuild:"+factKind(f)+":invented", "the schema a second gateway rebuilds from this gateway's introspection has %q which the enforced schema lacks", f), ""
			}
		}
	}
	return nil, class
}

// gatewayTransport serves the HTTP requests of an introspection client from a gateway's own handler.
type gatewayTransport struct{ gw *pebbles.Gateway }

func (g gatewayTransport) RoundTrip(r *http.Request) (*http.Response, error) {
	body, err := io.ReadAll(r.Body)
	if err != nil {
		return nil, err
	}
	resp := gwx.Post(g.gw, body, r.Header.Get("Content-Type"), 15*time.Second)
	if resp.TimedOut || resp.Panic != "" {
		return nil, fmt.Errorf("gateway did not answer: %s", trunc(resp.Panic, 300))
	}
	return &http.Response{StatusCode: resp.Status, Status: http.StatusText(resp.Status), Header: http.Header{"Content-Type": []string{"application/json"}},
		Body: io.NopCloser(bytes.NewReader(resp.Body)), Request: r, ProtoMajor: 1, ProtoMinor: 1}, nil
}

// warmupVariables returns the variables with every value changed (booleans flipped, strings replaced by another type name)
func warmupVariables(vars map[string]interface{}, names []string) map[string]interface{} {
	if len(vars) == 0 {
		return nil
	}
	out := map[string]interface{}{}
	changed := false
	for k, v := range vars {
		switch x := v.(type) {
		case bool:
			out[k] = !x
			changed = true
		case string:
			alt := "Query"
			for _, n := range names {
				if n != x && !strings.HasPrefix(n, "__") {
					alt = n
					break
				}
			}
			out[k] = alt
			changed = changed || alt != x
		default:
			out[k] = v
		}
	}
	if !changed {
		return nil
	}
	return out
}

func metaFieldOf(s string) string {
	s = strings.TrimSpace(s)
	if i := strings.Index(s, "["); i >= 0 {
		s = s[:i]
	}
	return s
}

func genIntrospectionOp(t *rapid.T, schema *ast.Schema) *opgen.Op {
	if rapid.IntRange(0, 5).Draw(t, "standard") == 0 {
		return &opgen.Op{Query: introspect.StandardQuery}
	}
	o := opgen.DefaultOptions()
	o.MetaRoot = true
	o.MaxDepth = 5
	o.NodeRoot = false
	o.MultiOp = false
	names := typeNames(schema)
	o.StringPool = append([]string{"NoSuchType", "Query", "String", "__Type", "Int"}, names...)
	o.Avoid = map[string]bool{}
	for _, g := range closedGates() {
		o.Avoid[g] = true
	}
	return opgen.Generate(t, schema, o)
}

func TestC16(t *testing.T) {
	rec := ev.Get("C16")
	rec.Rule = "gateway over (a) a generated federated world or (b) one service with a generated type-system-rich schema (descriptions, deprecations, directives, defaults, wrappers) x introspection operation: the standard query (1 in 6) or a grammar-generated selection over the meta-schema (aliases, fragments, @skip/@include, __type by literal and by variable with existing/builtin/unknown names, includeDeprecated literal/variable/omitted); before it up to four data operations that spread a fragment on one abstract type inside a root field of another are served by the same gateway; then the operation is also sent four times inside one batch that alternates it with other variable values; oracle: answer == harness resolver on the merger's schema (lists order-insensitive), no downstream request, and for the standard query a standard client rebuilds a schema with exactly the enforced schema's facts, and so does the gateway's own introspection client pointed at this gateway (a second gateway; directive repeatability aside, KF-C15-1); non-trivial = selection reaching depth>=3 of the meta-schema on a schema with interface/union/input/enum; distinct by hash(case)"
	defer census.dump("C16")
	rapid.Check(t, func(t *rapid.T) {
		var w *world.World
		rich := rapid.IntRange(0, 1).Draw(t, "rich") == 0
		if rich {
			o := sdlgen.DefaultOptions()
			o.CustomRoots = false
			sdl := sdlgen.Generate(t, o).SDL
			w = &world.World{Services: []world.Service{{URL: "http://svc-0.test/graphql", SDL: sdl}}, UnionSDL: sdl, Store: &world.Store{Entities: map[string]*world.Entity{}, Roots: map[string]interface{}{}}}
		} else {
			wopt := world.DefaultOptions()
			wopt.Subscriptions = true
			m := world.Generate(t, wopt)
			w = m.Build()
			w.Store = &world.Store{Entities: map[string]*world.Entity{}, Roots: map[string]interface{}{}}
		}
		c := &ExecCase{World: w}
		c.Config = genConfig(t, len(w.Services))
		if rich {
			c.Config.Order = nil
		}
		res, merr, pan := runMerge(w, c.Config.Order, c.Config.Merger)
		if pan != "" || merr != nil {
			rec.Class("skip:world-does-not-merge", 1)
			return
		}
		op := genIntrospectionOp(t, res.Schema)
		if op == nil {
			return
		}
		c.Op = *op
		fs := feat.Set{}
		if doc, errs := gqlparser.LoadQuery(res.Schema, op.Query); errs == nil {
			if o, err := refexec.PickOperation(doc, op.OperationName); err == nil {
				fs = feat.Operation(res.Schema, o, op.Variables)
			}
		}
		for _, g := range c16SchemaFeatures(res.Schema, op) {
			fs[g] = true
		}
		if g := closedGateIn(fs); g != "" {
			rec.Exclude(g)
			return
		}
		ev.Current("C16", c)
		f, class := checkC16(c)
		if strings.HasPrefix(class, "skip:") {
			rec.Class(class, 1)
			return
		}
		hasAbstract := false
		for _, d := range res.Schema.Types {
			if !strings.HasPrefix(d.Name, "__") && (d.Kind == ast.Interface || d.Kind == ast.Union || d.Kind == ast.InputObject || d.Kind == ast.Enum) {
				hasAbstract = true
			}
		}
		nt := hasAbstract && (fs["op.depth>=3"] || class == "standard")
		labels := append(fs.List(), class)
		if rich {
			labels = append(labels, "richSchema")
		} else {
			labels = append(labels, fmt.Sprintf("services=%d", len(w.Services)))
		}
		rec.Case(ev.Hash(c.World.Services, c.Op, c.Config), nt, labels...)
		rec.Sample(nt && class != "standard", func() interface{} {
			return map[string]interface{}{"query": c.Op.Query, "variables": c.Op.Variables, "services": len(w.Services), "rich_schema": rich}
		})
		if f != nil {
			if isCensus() {
				census.add(f.Signature, trunc(c.Op.Query, 200)+" ## "+trunc(f.Message, 300))
				return
			}
			if only := onlySig(); only != "" && !strings.HasPrefix(f.Signature, only) {
				return
			}
			ev.WriteFail("C16", c, f)
			t.Fatalf("%v", f)
		}
	})
}

// c16SchemaFeatures: feature classes of (schema, introspection op) used as gates of open findings.
func c16SchemaFeatures(s *ast.Schema, op *opgen.Op) []string {
	var fs []string
	q := op.Query
	has := func(sub string) bool { return strings.Contains(q, sub) }
	if has("isRepeatable") {
		fs = append(fs, "introspect.isRepeatable")
	}
	if has("specifiedByURL") {
		fs = append(fs, "introspect.specifiedByURL")
	}
	if has("__type") && has("$") {
		fs = append(fs, "introspect.typeByVariable")
	}
	if has("possibleTypes") {
		fs = append(fs, "introspect.possibleTypes")
	}
	if has("inputFields") {
		fs = append(fs, "introspect.inputFields")
	}
	if has("defaultValue") {
		fs = append(fs, "introspect.defaultValue")
	}
	if has("description") {
		fs = append(fs, "introspect.description")
	}
	if has("deprecationReason") {
		fs = append(fs, "introspect.deprecationReason")
	}
	if has("__typename") {
		fs = append(fs, "introspect.typename")
	}
	if q == introspect.StandardQuery {
		fs = append(fs, "introspect.standardQuery")
	}
	return fs
}

func init() {
	replayers["C16"] = func(path string) (*ev.Failure, error) {
		var c ExecCase
		if _, _, err := ev.LoadCase(path, &c); err != nil {
			return nil, err
		}
		f, class := checkC16(&c)
		if f == nil && strings.HasPrefix(class, "skip:") {
			return nil, fmt.Errorf("replay case outside the domain: %s", class)
		}
		return f, nil
	}
	_ = json.Marshal
}
