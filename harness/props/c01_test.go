package props

import (
	"encoding/json"
	"fmt"
	"os"
	"regexp"
	"sort"
	"strings"
	"sync"
	"testing"
	"time"

	"github.com/vektah/gqlparser/v2"
	"github.com/vektah/gqlparser/v2/ast"
	"pgregory.net/rapid"

	"verif/harness/ev"
	"verif/harness/fake"
	"verif/harness/feat"
	"verif/harness/gwx"
	"verif/harness/introspect"
	"verif/harness/opgen"
	"verif/harness/refexec"
	"verif/harness/world"
)

// ExecCase: one client operation against a gateway over a world.
type ExecCase struct {
	World  *world.World `json:"world"`
	Config gwx.Config   `json:"config"`
	Op     opgen.Op     `json:"op"`
}

var wordRe = regexp.MustCompile(`[^a-zA-Z ]+`)

func msgClass(m string) string {
	m = wordRe.ReplaceAllString(m, "")
	w := strings.Fields(m)
	if len(w) > 5 {
		w = w[:5]
	}
	return strings.Join(w, "-")
}

func errorsClass(errs []map[string]interface{}) string {
	if len(errs) == 0 {
		return "none"
	}
	e := errs[0]
	msg, _ := e["message"].(string)
	if strings.HasPrefix(msg, "downstream validation:") {
		if ext, ok := e["extensions"].(map[string]interface{}); ok {
			if r, ok := ext["rule"].(string); ok && r != "" {
				return "downstream-validation:" + r
			}
		}
		return "downstream-validation:parse"
	}
	return msgClass(msg)
}

type execOutcome struct {
	Skip     string // non-empty: case outside the domain (reason)
	Expected map[string]interface{}
	Observed *gwx.GQLResponse
	Raw      *gwx.Response
	Log      []*fake.Received
	RefRes   *refexec.Result
	Net      *fake.Net
	// Again sends the same request to the same gateway once more (plans may be cached)
	Again func() *gwx.Response
}

// runExec executes the case on the gateway and on the reference.
func runExec(c *ExecCase) (*execOutcome, *ev.Failure) {
	out := &execOutcome{}
	union, err := c.World.UnionSchema()
	if err != nil {
		return nil, ev.Failf("harness", "union schema: %v", err)
	}
	ref := &refexec.Executor{Schema: union, Store: c.World.Store, Meta: metaHook(union)}
	doc, verrs := ref.Parse(c.Op.Query)
	if verrs != nil {
		out.Skip = "op-invalid-for-union: " + verrs.Error()
		return out, nil
	}
	if _, err := refexec.PickOperation(doc, c.Op.OperationName); err != nil {
		out.Skip = "op-selection: " + err.Error()
		return out, nil
	}
	rr := ref.Execute(doc, c.Op.OperationName, c.Op.Variables)
	if len(rr.Errors) > 0 {
		if strings.HasPrefix(rr.Errors[0], "variables:") {
			out.Skip = "bad-variables: " + rr.Errors[0]
			return out, nil
		}
		return nil, ev.Failf("harness", "reference executor reports errors on schema-conforming data: %v", rr.Errors)
	}
	out.RefRes = rr
	out.Expected, _ = refexec.Normalize(rr.Data).(map[string]interface{})

	net, err := fake.NewNet(c.World)
	if err != nil {
		return nil, ev.Failf("harness", "%v", err)
	}
	out.Net = net
	gw, err := gwx.Build(c.World, net, c.Config)
	if err != nil {
		if strings.HasPrefix(err.Error(), "PANIC") {
			return nil, ev.Failf("startup-panic", "%v", err)
		}
		return nil, ev.Failf("startup-error", "NewGateway failed on a mergeable world: %v", err)
	}
	resp := gwx.PostOp(gw, gwx.GQLRequest{Query: c.Op.Query, Variables: c.Op.Variables, OperationName: c.Op.OperationName}, 15*time.Second)
	out.Again = func() *gwx.Response {
		return gwx.PostOp(gw, gwx.GQLRequest{Query: c.Op.Query, Variables: c.Op.Variables, OperationName: c.Op.OperationName}, 15*time.Second)
	}
	out.Raw = resp
	out.Log = net.Snapshot()
	if resp.TimedOut {
		return nil, ev.Failf("hang", "no response within 15s")
	}
	if resp.Panic != "" {
		return nil, ev.Failf("panic", "handler panicked: %s", resp.Panic)
	}
	if resp.Status != 200 {
		return nil, ev.Failf("http-status", "status %d body %s", resp.Status, resp.Body)
	}
	dec, derr := gwx.Decode(resp.Body)
	if derr != nil {
		return nil, ev.Failf("envelope", "response is not JSON: %v: %s", derr, resp.Body)
	}
	out.Observed = dec
	return out, nil
}

func checkC01(c *ExecCase) (*ev.Failure, *execOutcome) {
	if c.Config.Merger == "sanitize" && opUsesNodeRoot(c) {
		return nil, &execOutcome{Skip: "node-root-under-sanitize"}
	}
	out, f := runExec(c)
	if f != nil || out.Skip != "" {
		return f, out
	}
	if len(out.Observed.Errors) > 0 {
		return ev.Failf("gateway-errors:"+errorsClass(out.Observed.Errors), "valid operation answered with errors: %s", trunc(string(out.Raw.Body), 800)), out
	}
	exp := refexec.Prune(cloneJSON(out.Expected))
	got := refexec.Prune(cloneJSON(out.Observed.Data))
	if got == nil {
		got = map[string]interface{}{}
	}
	if m, ok := got.(map[string]interface{}); ok && m == nil {
		got = map[string]interface{}{}
	}
	if cls, msg := refexec.Diff(exp, got, "data"); cls != "" {
		return ev.Failf("data-mismatch:"+cls, "%s\nexpected %s\nobserved %s", msg, trunc(jsonOf(exp), 1500), trunc(jsonOf(got), 1500)), out
	}
	// with the caching planner the plan of the first request answers the second one: same answer
	if c.Config.Planner == "cached" && out.Again != nil {
		r2 := out.Again()
		if r2.TimedOut || r2.Panic != "" {
			return ev.Failf("hang", "the repeated request was not answered: %s", trunc(r2.Panic, 300)), out
		}
		d2, derr := gwx.Decode(r2.Body)
		if derr != nil {
			return ev.Failf("envelope", "repeated request: %v", derr), out
		}
		if len(d2.Errors) > 0 {
			return ev.Failf("gateway-errors:second-request", "the same request sent again is answered with errors: %s", trunc(jsonOf(d2.Errors), 600)), out
		}
		got2 := refexec.Prune(cloneJSON(map[string]interface{}(d2.Data)))
		if m, ok := got2.(map[string]interface{}); ok && m == nil {
			got2 = map[string]interface{}{}
		}
		if cls, msg := refexec.Diff(exp, got2, "data"); cls != "" {
			return ev.Failf("data-mismatch:second-request:"+cls, "the same request sent again: %s\nexpected %s\nobserved %s", msg, trunc(jsonOf(exp), 1500), trunc(jsonOf(got2), 1500)), out
		}
	}
	return nil, out
}

func cloneJSON(v interface{}) interface{} {
	return refexec.Normalize(v)
}

func jsonOf(v interface{}) string {
	b, _ := json.Marshal(v)
	return string(b)
}

func trunc(s string, n int) string {
	if len(s) > n {
		return s[:n] + "…"
	}
	return s
}

// metaHook answers introspection root fields inside an ordinary operation with the harness's specification resolver
func metaHook(schema *ast.Schema) func(*ast.Field, ast.SelectionSet, map[string]interface{}) interface{} {
	return func(f *ast.Field, subs ast.SelectionSet, vars map[string]interface{}) interface{} {
		cp := *f
		cp.Alias = "x"
		cp.SelectionSet = subs
		r := &introspect.Resolver{Schema: schema, Vars: vars}
		return r.ResolveRoot(ast.SelectionSet{&cp}, "Query")["x"]
	}
}

func opUsesNodeRoot(c *ExecCase) bool {
	union, err := c.World.UnionSchema()
	if err != nil {
		return false
	}
	doc, errs := gqlparser.LoadQuery(union, c.Op.Query)
	if errs != nil {
		return false
	}
	for _, op := range doc.Operations {
		if op.Operation != ast.Query {
			continue
		}
		if selectionUsesField(op.SelectionSet, "node", map[string]bool{}) {
			return true
		}
	}
	return false
}

func selectionUsesField(ss ast.SelectionSet, name string, seen map[string]bool) bool {
	for _, s := range ss {
		switch x := s.(type) {
		case *ast.Field:
			if x.Name == name {
				return true
			}
		case *ast.InlineFragment:
			if selectionUsesField(x.SelectionSet, name, seen) {
				return true
			}
		case *ast.FragmentSpread:
			if !seen[x.Name] && x.Definition != nil {
				seen[x.Name] = true
				if selectionUsesField(x.Definition.SelectionSet, name, seen) {
					return true
				}
			}
		}
	}
	return false
}

// ---- owners & labels ---------------------------------------------------------------

// ownersOf maps "Type.field" -> set of service indexes declaring it on an object type.
func ownersOf(w *world.World) map[string][]int {
	res := map[string][]int{}
	schemas, err := w.ServiceSchemas()
	if err != nil {
		return res
	}
	for i, s := range schemas {
		for name, d := range s.Types {
			if d.Kind != ast.Object || strings.HasPrefix(name, "__") {
				continue
			}
			for _, fd := range d.Fields {
				if strings.HasPrefix(fd.Name, "__") || fd.Name == "id" {
					continue
				}
				res[name+"."+fd.Name] = append(res[name+"."+fd.Name], i)
			}
		}
	}
	return res
}

func servicesTouched(w *world.World, touched map[string]int) int {
	owners := ownersOf(w)
	set := map[int]bool{}
	for k := range touched {
		os := owners[k]
		if len(os) == 1 {
			set[os[0]] = true
		}
	}
	return len(set)
}

// caseFeatures classifies the operation of a case (nil if it does not validate against the union schema).
func caseFeatures(c *ExecCase) feat.Set {
	union, err := c.World.UnionSchema()
	if err != nil {
		return feat.Set{}
	}
	doc, errs := gqlparser.LoadQuery(union, c.Op.Query)
	if errs != nil {
		return feat.Set{}
	}
	op, err := refexec.PickOperation(doc, c.Op.OperationName)
	if err != nil {
		return feat.Set{}
	}
	fs := feat.OperationWithOwners(union, op, c.Op.Variables, ownersOf(c.World))
	for _, l := range c.World.Labels {
		fs["world."+l] = true
	}
	return fs
}

func closedGates() []string {
	var r []string
	for _, x := range strings.Split(os.Getenv("VERIF_GATES"), ",") {
		if x != "" {
			r = append(r, x)
		}
	}
	return r
}

func closedGateIn(fs feat.Set) string {
	for _, g := range closedGates() {
		if fs[g] {
			return g
		}
	}
	return ""
}

// ---- generation ---------------------------------------------------------------------

func gateClosed(g string) bool {
	for _, x := range strings.Split(os.Getenv("VERIF_GATES"), ",") {
		if x == g {
			return true
		}
	}
	return false
}

func genConfig(t *rapid.T, nServices int) gwx.Config {
	cfg := gwx.Config{}
	if rapid.IntRange(0, 3).Draw(t, "cfgMerger") == 0 {
		cfg.Merger = "sanitize"
	}
	switch rapid.IntRange(0, 3).Draw(t, "cfgPlanner") {
	case 0:
		cfg.Planner = "cached"
		cfg.TTLNs = int64(time.Hour)
	case 1:
		cfg.Planner = "cached"
		cfg.TTLNs = 0
	}
	cfg.IDHint = rapid.IntRange(0, 2).Draw(t, "cfgHint") == 0
	if rapid.IntRange(0, 2).Draw(t, "cfgOrder") == 0 {
		cfg.Order = genOrder(t, nServices)
	}
	return cfg
}

func entityIDs(st *world.Store) []string {
	ids := make([]string, 0, len(st.Entities))
	for id := range st.Entities {
		ids = append(ids, id)
	}
	sort.Strings(ids)
	return ids
}

type censusT struct {
	mu   sync.Mutex
	sigs map[string]int
	ex   map[string]string
}

var census = &censusT{sigs: map[string]int{}, ex: map[string]string{}}

func (c *censusT) add(sig, example string) {
	c.mu.Lock()
	c.sigs[sig]++
	if _, ok := c.ex[sig]; !ok || len(example) < len(c.ex[sig]) {
		c.ex[sig] = example
	}
	c.mu.Unlock()
}

// keep saves the first cases of a signature as replayable case files (census mode reports without stopping,
// a rare failure would otherwise be gone with the run).
func (c *censusT) keep(pid, sig string, cs interface{}, msg string) {
	dir := os.Getenv("VERIF_OUT")
	c.mu.Lock()
	n := c.sigs[sig]
	c.mu.Unlock()
	if dir == "" || n > 2 {
		return
	}
	name := strings.Map(func(r rune) rune {
		if r >= 'a' && r <= 'z' || r >= 'A' && r <= 'Z' || r >= '0' && r <= '9' {
			return r
		}
		return '_'
	}, sig)
	b, err := json.MarshalIndent(map[string]interface{}{"property": pid, "signature": sig, "message": msg, "case": cs}, "", " ")
	if err == nil {
		os.WriteFile(fmt.Sprintf("%s/census-case-%s-%s-%d.json", dir, pid, name, n), b, 0o644)
	}
}

func (c *censusT) dump(id string) {
	c.mu.Lock()
	defer c.mu.Unlock()
	if len(c.sigs) == 0 {
		return
	}
	type kv struct {
		k string
		v int
	}
	var l []kv
	for k, v := range c.sigs {
		l = append(l, kv{k, v})
	}
	sort.Slice(l, func(i, j int) bool { return l[i].v > l[j].v })
	fmt.Printf("CENSUS %s\n", id)
	for _, e := range l {
		fmt.Printf("  %6d  %s\n", e.v, e.k)
	}
	if dir := os.Getenv("VERIF_OUT"); dir != "" {
		b, _ := json.MarshalIndent(map[string]interface{}{"counts": c.sigs, "examples": c.ex}, "", " ")
		os.WriteFile(dir+"/census-"+id+".json", b, 0o644)
	}
}

func isCensus() bool { return os.Getenv("VERIF_CENSUS") != "" }

// opOverride lets a property adjust the operation generator (depth etc.)
var opOverride func(*opgen.Options)

// mixIntrospection: generated queries may carry a simple introspection root field beside ordinary ones (set by the tests whose oracle covers it)
var mixIntrospection bool

// storeOverride lets a property adjust the data generator (list lengths etc.)
var storeOverride func(*world.StoreOptions)

func onlySig() string { return os.Getenv("VERIF_ONLY_SIG") }

func genExecCase(t *rapid.T, rec *ev.Recorder, opType ast.Operation) (*ExecCase, *world.Model) {
	return genExecCaseOpt(t, rec, opType, false)
}

func genExecCaseOpt(t *rapid.T, rec *ev.Recorder, opType ast.Operation, saturated bool) (*ExecCase, *world.Model) {
	wopt := world.DefaultOptions()
	if ev.Thorough() {
		wopt.MaxServices = 5
	}
	if rapid.IntRange(0, 9).Draw(t, "multi") > 0 {
		wopt.MinServices = 2
	}
	if rapid.IntRange(0, 5).Draw(t, "ifacebias") == 0 {
		wopt.IfaceBias = true
		wopt.MinServices = 3
		if wopt.MaxServices < 3 {
			wopt.MaxServices = 3
		}
	}
	if opType == ast.Mutation {
		wopt.ForceMutations = true
	}
	if opType == ast.Subscription {
		wopt.Subscriptions = true
	}
	m := world.Generate(t, wopt)
	w := m.Build()
	sopt := world.DefaultStoreOptions()
	sopt.Saturated = saturated
	sopt.HostileIDs = rapid.IntRange(0, 3).Draw(t, "hostileids") == 0 // ids with the separators of the executor's insertion points (# and :), spaces, dots, slashes
	if storeOverride != nil {
		storeOverride(&sopt)
	}
	w.Store = world.GenerateStore(t, m, sopt)
	w.Labels = world.SortedKeys(m.Labels) // the data generator adds labels too (hostile ids)
	union, err := w.UnionSchema()
	if err != nil {
		t.Fatalf("generator bug: %v", err)
	}
	o := opgen.DefaultOptions()
	o.OpType = opType
	if opType == ast.Mutation && union.Mutation == nil {
		o.OpType = ast.Query
	}
	o.IDs = entityIDs(w.Store)
	o.MaxDepth = rapid.SampledFrom([]int{2, 3, 3, 4, 5, 6}).Draw(t, "maxdepth")
	o.MixIntrospection = mixIntrospection
	if opOverride != nil {
		opOverride(&o)
	}
	applyGates(&o)
	op := opgen.Generate(t, union, o)
	if op == nil {
		return nil, m
	}
	return &ExecCase{World: w, Config: genConfig(t, m.NServices), Op: *op}, m
}

func applyGates(o *opgen.Options) {
	o.Avoid = map[string]bool{}
	for _, g := range closedGates() {
		o.Avoid[g] = true
	}
}

func TestC01(t *testing.T) {
	rec := ev.Get("C01")
	rec.Rule = "world (1..4 services; 5 in thorough) x store x operation (query 80% / mutation 20%; aliases, arguments, variables, defaults, fragments, directives, abstract types, node root) x configuration (merger, id hint, plain/cached planner, service order); oracle: prune(gateway data) == prune(reference executor on the union schema), errors empty; non-trivial = the reference evaluation resolves fields owned by >=2 services; distinct by hash(world, op, variables)"
	defer census.dump("C01")
	mixIntrospection = true
	defer func() { mixIntrospection = false }()
	rapid.Check(t, func(t *rapid.T) {
		opType := ast.Query
		if rapid.IntRange(0, 4).Draw(t, "mutation") == 0 {
			opType = ast.Mutation
		}
		c, _ := genExecCase(t, rec, opType)
		if c != nil && strings.HasPrefix(strings.TrimSpace(c.Op.Query), "mutation") {
			opType = ast.Mutation
		} else {
			opType = ast.Query
		}
		if c == nil {
			rec.Class("skip:no-operation", 1)
			return
		}
		fs := caseFeatures(c)
		if g := closedGateIn(fs); g != "" {
			rec.Exclude(g)
			if os.Getenv("VERIF_DUMP_EXCLUDED") == g {
				fmt.Println("EXCLUDED", g, c.Op.Query)
			}
			return
		}
		ev.Current("C01", c)
		f, out := checkC01(c)
		if out != nil && out.Skip != "" {
			rec.Class("skip:"+strings.SplitN(out.Skip, ":", 2)[0], 1)
			return
		}
		labels := fs.List()
		nt := false
		if out != nil && out.RefRes != nil {
			k := servicesTouched(c.World, out.RefRes.Touched)
			nt = k >= 2
			if nt {
				labels = append(labels, "crossesServices")
			}
			if out.RefRes.DupInList > 0 {
				labels = append(labels, "dupEntityInList")
			}
		}
		if opType == ast.Mutation {
			labels = append(labels, "mutation")
		}
		labels = append(labels, "merger="+c.Config.Merger, "planner="+c.Config.Planner)
		rec.Case(ev.Hash(c.World.Services, c.World.Store, c.Op), nt, labels...)
		rec.Sample(nt, func() interface{} { return c })
		if f != nil {
			if isCensus() {
				census.add(f.Signature, c.Op.Query+"  ## "+trunc(f.Message, 300))
				census.keep("C01", f.Signature, c, f.Message)
				return
			}
			if only := os.Getenv("VERIF_ONLY_SIG"); only != "" && !strings.HasPrefix(f.Signature, only) {
				return
			}
			ev.WriteFail("C01", c, f)
			t.Fatalf("%v", f)
		}
	})
}

func init() {
	replayers["C01"] = func(path string) (*ev.Failure, error) {
		var c ExecCase
		if _, _, err := ev.LoadCase(path, &c); err != nil {
			return nil, err
		}
		f, out := checkC01(&c)
		if f == nil && out != nil && out.Skip != "" {
			return nil, fmt.Errorf("replay case is outside the domain: %s", out.Skip)
		}
		return f, nil
	}
}
