// Package fake provides in-process fake GraphQL services built on refexec,
// reachable through an http.RoundTripper so that pebbles' real MultiOpQueryer
// is exercised.
package fake

import (
	"bytes"
	"encoding/json"
	"errors"
	"fmt"
	"io"
	"mime"
	"mime/multipart"
	"net"
	"net/http"
	"os"
	"strings"
	"sync"
	"sync/atomic"
	"syscall"

	"github.com/vektah/gqlparser/v2/ast"

	"verif/harness/refexec"
	"verif/harness/world"
)

// Received is one GraphQL request as seen by a fake service.
type Received struct {
	Service       string                 `json:"service"`
	Query         string                 `json:"query"`
	Variables     map[string]interface{} `json:"variables"`
	OperationName *string                `json:"operationName"`
	Call          int                    `json:"call"`     // index of the HTTP call at this service
	BatchPos      int                    `json:"batchPos"` // position inside the HTTP call's batch
	BatchSize     int                    `json:"batchSize"`
	Multipart     bool                   `json:"multipart,omitempty"`
	Files         map[string]FilePart    `json:"files,omitempty"` // variable path -> part
	Invalid       []string               `json:"invalid,omitempty"`
	OpKeyword     string                 `json:"op,omitempty"`
	TouchedArgs   map[string]int         `json:"-"`
	// VariablesText: the variables as written by the gateway (number literals as text), keys sorted
	VariablesText string `json:"-"`
}

type FilePart struct {
	Name string `json:"name"`
	Data []byte `json:"data"`
}

type Service struct {
	URL    string
	Schema *ast.Schema
	Store  *world.Store
}

// Net is a set of fake services behind one RoundTripper, with a shared log.
type Net struct {
	mu       sync.Mutex
	Services map[string]*Service // by URL
	Log      []*Received
	Calls    map[string]int // HTTP calls per service URL
	// Bodies of all responses returned (for taint checks)
	ResponseBodies [][]byte
	// Fault, if set, may replace the response of an HTTP call. callIdx counts calls over all services.
	Fault func(callIdx int, url string, reqs []*Received, normal []map[string]interface{}) *FaultResponse
	// BeforeRespond, if set, is called (outside the lock) before a response is returned: delays / ordering
	BeforeRespond func(url string, reqs []*Received)
	// Stall, if set, may return a channel: the answer is held back until the channel is closed or the request's
	// context ends (a service that does not answer; a client that gives up is released like on a real connection)
	Stall      func(url string, reqs []*Received) <-chan struct{}
	totalCalls int
}

type FaultResponse struct {
	Err    error
	Status int
	Body   []byte
	// CutAfter > 0: the body breaks off after that many bytes with an unexpected EOF (the connection died mid-answer)
	CutAfter int
	// Location: value of the Location header (redirect statuses)
	Location string
}

func NewNet(w *world.World) (*Net, error) {
	n := &Net{Services: map[string]*Service{}, Calls: map[string]int{}}
	schemas, err := w.ServiceSchemas()
	if err != nil {
		return nil, err
	}
	for i, s := range w.Services {
		n.Services[s.URL] = &Service{URL: s.URL, Schema: schemas[i], Store: w.Store}
	}
	return n, nil
}

// SetFault installs (or removes, with nil) the fault callback while requests may be in flight.
func (n *Net) SetFault(f func(callIdx int, url string, reqs []*Received, normal []map[string]interface{}) *FaultResponse) {
	n.mu.Lock()
	n.Fault = f
	n.mu.Unlock()
}

func (n *Net) Reset() {
	n.mu.Lock()
	n.Log = nil
	n.Calls = map[string]int{}
	n.ResponseBodies = nil
	n.totalCalls = 0
	n.mu.Unlock()
}

func (n *Net) Snapshot() []*Received {
	n.mu.Lock()
	defer n.mu.Unlock()
	return append([]*Received{}, n.Log...)
}

// Bodies returns the response bodies served since the last Reset.
func (n *Net) Bodies() [][]byte {
	n.mu.Lock()
	defer n.mu.Unlock()
	return append([][]byte{}, n.ResponseBodies...)
}

func (n *Net) CallCounts() map[string]int {
	n.mu.Lock()
	defer n.mu.Unlock()
	r := map[string]int{}
	for k, v := range n.Calls {
		r[k] = v
	}
	return r
}

// Handle executes one request at a service and returns the response object.
func (s *Service) Handle(r *Received) map[string]interface{} {
	ex := &refexec.Executor{Schema: s.Schema, Store: s.Store}
	doc, errs := ex.Parse(r.Query)
	if errs != nil {
		var list []interface{}
		for _, e := range errs {
			r.Invalid = append(r.Invalid, ruleOf(e.Rule)+": "+e.Message)
			list = append(list, map[string]interface{}{"message": "downstream validation: " + e.Message, "extensions": map[string]interface{}{"rule": e.Rule}})
		}
		return map[string]interface{}{"data": nil, "errors": list}
	}
	op, err := refexec.PickOperation(doc, r.OperationName)
	if err != nil {
		r.Invalid = append(r.Invalid, "operation: "+err.Error())
		return map[string]interface{}{"data": nil, "errors": []interface{}{map[string]interface{}{"message": "downstream: " + err.Error()}}}
	}
	r.OpKeyword = string(op.Operation)
	res := ex.Execute(doc, r.OperationName, r.Variables)
	r.TouchedArgs = res.TouchedArgs
	if len(res.Errors) > 0 {
		var list []interface{}
		for _, e := range res.Errors {
			r.Invalid = append(r.Invalid, "exec: "+e)
			list = append(list, map[string]interface{}{"message": "downstream execution: " + e})
		}
		return map[string]interface{}{"data": res.Data, "errors": list}
	}
	return map[string]interface{}{"data": res.Data}
}

func ruleOf(r string) string {
	if r == "" {
		return "parse"
	}
	return r
}

type rawReq struct {
	Query         string                 `json:"query"`
	Variables     map[string]interface{} `json:"variables"`
	OperationName *string                `json:"operationName"`
	// VariablesText: the variables as they were written (number literals kept as text), keys sorted
	VariablesText string `json:"-"`
}

func (r *rawReq) UnmarshalJSON(b []byte) error {
	var p struct {
		Query         string          `json:"query"`
		Variables     json.RawMessage `json:"variables"`
		OperationName *string         `json:"operationName"`
	}
	if err := json.Unmarshal(b, &p); err != nil {
		return err
	}
	r.Query, r.OperationName = p.Query, p.OperationName
	if len(p.Variables) == 0 {
		return nil
	}
	if err := json.Unmarshal(p.Variables, &r.Variables); err != nil {
		return err
	}
	dec := json.NewDecoder(bytes.NewReader(p.Variables))
	dec.UseNumber()
	var v interface{}
	if dec.Decode(&v) == nil {
		if t, err := json.Marshal(v); err == nil {
			r.VariablesText = string(t)
		}
	}
	return nil
}

func (n *Net) RoundTrip(req *http.Request) (*http.Response, error) {
	url := req.URL.String()
	svc := n.Services[url]
	if svc == nil {
		return nil, fmt.Errorf("fake: no service at %s", url)
	}
	body, err := io.ReadAll(req.Body)
	if err != nil {
		return nil, err
	}
	req.Body.Close()
	ct, params, _ := mime.ParseMediaType(req.Header.Get("Content-Type"))

	var recs []*Received
	single := false
	if ct == "multipart/form-data" {
		rec, err := parseMultipart(body, params["boundary"])
		if err != nil {
			return jsonResponse(400, []byte(`{"errors":[{"message":"bad multipart: `+err.Error()+`"}]}`)), nil
		}
		rec.Multipart = true
		recs = []*Received{rec}
		single = true
	} else {
		trim := bytes.TrimSpace(body)
		if len(trim) > 0 && trim[0] == '[' {
			var rr []rawReq
			if err := json.Unmarshal(trim, &rr); err != nil {
				return jsonResponse(400, []byte(`{"errors":[{"message":"bad json"}]}`)), nil
			}
			for _, r := range rr {
				recs = append(recs, &Received{Query: r.Query, Variables: r.Variables, OperationName: r.OperationName, VariablesText: r.VariablesText})
			}
		} else {
			var r rawReq
			if err := json.Unmarshal(trim, &r); err != nil {
				return jsonResponse(400, []byte(`{"errors":[{"message":"bad json"}]}`)), nil
			}
			recs = []*Received{{Query: r.Query, Variables: r.Variables, OperationName: r.OperationName, VariablesText: r.VariablesText}}
			single = true
		}
	}

	n.mu.Lock()
	call := n.Calls[url]
	n.Calls[url]++
	callIdx := n.totalCalls
	n.totalCalls++
	n.mu.Unlock()

	resps := make([]map[string]interface{}, len(recs))
	for i, r := range recs {
		r.Service = url
		r.Call = call
		r.BatchPos = i
		r.BatchSize = len(recs)
		resps[i] = svc.Handle(r)
	}
	n.mu.Lock()
	n.Log = append(n.Log, recs...)
	fault := n.Fault
	before := n.BeforeRespond
	stall := n.Stall
	n.mu.Unlock()

	if before != nil {
		before(url, recs)
	}
	if stall != nil {
		if ch := stall(url, recs); ch != nil {
			select {
			case <-ch:
			case <-req.Context().Done():
				return nil, req.Context().Err()
			}
		}
	}
	if fault != nil {
		if fr := fault(callIdx, url, recs, resps); fr != nil {
			if fr.Err != nil {
				return nil, fr.Err
			}
			st := fr.Status
			if st == 0 {
				st = 200
			}
			n.mu.Lock()
			n.ResponseBodies = append(n.ResponseBodies, fr.Body)
			n.mu.Unlock()
			resp := jsonResponse(st, fr.Body)
			if fr.Location != "" {
				resp.Header.Set("Location", fr.Location)
			}
			if fr.CutAfter > 0 && fr.CutAfter < len(fr.Body) {
				resp.Body.(*trackedBody).cutAfter = fr.CutAfter
			}
			return resp, nil
		}
	}
	var out []byte
	if single {
		out, _ = json.Marshal(resps[0])
	} else {
		out, _ = json.Marshal(resps)
	}
	n.mu.Lock()
	n.ResponseBodies = append(n.ResponseBodies, out)
	n.mu.Unlock()
	return jsonResponse(200, out), nil
}

func jsonResponse(status int, body []byte) *http.Response {
	return &http.Response{
		StatusCode: status, Status: fmt.Sprintf("%d", status), Proto: "HTTP/1.1", ProtoMajor: 1, ProtoMinor: 1,
		Header: http.Header{"Content-Type": []string{"application/json"}},
		Body:   newTrackedBody(body), ContentLength: int64(len(body)),
	}
}

// trackedBody is a response body that knows whether its reader released it: a real transport gives the
// connection back only when the body was read to its end or closed.
type trackedBody struct {
	r        *bytes.Reader
	released int32
	cutAfter int // > 0: fail with io.ErrUnexpectedEOF after that many bytes
	served   int
}

var heldBodies int64

func newTrackedBody(b []byte) *trackedBody {
	atomic.AddInt64(&heldBodies, 1)
	return &trackedBody{r: bytes.NewReader(b)}
}

func (t *trackedBody) release() {
	if atomic.CompareAndSwapInt32(&t.released, 0, 1) {
		atomic.AddInt64(&heldBodies, -1)
	}
}

func (t *trackedBody) Read(p []byte) (int, error) {
	if t.cutAfter > 0 {
		left := t.cutAfter - t.served
		if left <= 0 {
			t.release() // a broken connection is not given back, but it is not held either
			return 0, io.ErrUnexpectedEOF
		}
		if len(p) > left {
			p = p[:left]
		}
	}
	n, err := t.r.Read(p)
	t.served += n
	if err == io.EOF {
		t.release()
	}
	return n, err
}

func (t *trackedBody) Close() error { t.release(); return nil }

// HeldBodies is the number of response bodies handed out (by all Nets of the process) and not yet released.
func HeldBodies() int64 { return atomic.LoadInt64(&heldBodies) }

// TransportError returns a transport-level failure as a real http.Client would report it; which one is a
// stable function of the key (the case decides, not the schedule).
func TransportError(key string) error {
	h := 0
	for _, c := range key {
		h = h*31 + int(c)
	}
	if h < 0 {
		h = -h
	}
	switch h % 6 {
	case 0:
		return io.EOF
	case 1:
		return io.ErrUnexpectedEOF
	case 2:
		return &net.OpError{Op: "read", Net: "tcp", Err: os.NewSyscallError("read", syscall.ECONNRESET)}
	case 3:
		return &net.OpError{Op: "write", Net: "tcp", Err: os.NewSyscallError("write", syscall.EPIPE)}
	case 4:
		return &net.OpError{Op: "dial", Net: "tcp", Err: os.NewSyscallError("connect", syscall.ECONNREFUSED)}
	}
	return errors.New("fake: connection refused")
}

// parseMultipart is the harness's own reading of the GraphQL multipart request spec (single operation).
func parseMultipart(body []byte, boundary string) (*Received, error) {
	if boundary == "" {
		return nil, fmt.Errorf("no boundary")
	}
	mr := multipart.NewReader(bytes.NewReader(body), boundary)
	form, err := mr.ReadForm(64 << 20)
	if err != nil {
		return nil, err
	}
	ops := form.Value["operations"]
	if len(ops) != 1 {
		return nil, fmt.Errorf("operations missing")
	}
	var r rawReq
	if err := json.Unmarshal([]byte(ops[0]), &r); err != nil {
		return nil, fmt.Errorf("operations: %v", err)
	}
	rec := &Received{Query: r.Query, Variables: r.Variables, OperationName: r.OperationName, Files: map[string]FilePart{}}
	var fmap map[string][]string
	if len(form.Value["map"]) != 1 {
		return nil, fmt.Errorf("map missing")
	}
	if err := json.Unmarshal([]byte(form.Value["map"][0]), &fmap); err != nil {
		return nil, fmt.Errorf("map: %v", err)
	}
	for key, paths := range fmap {
		fhs := form.File[key]
		if len(fhs) != 1 {
			return nil, fmt.Errorf("file part %q missing", key)
		}
		f, err := fhs[0].Open()
		if err != nil {
			return nil, err
		}
		data, _ := io.ReadAll(f)
		f.Close()
		for _, p := range paths {
			rec.Files[p] = FilePart{Name: fhs[0].Filename, Data: data}
			// place a marker in the variables so the executor sees a non-null upload
			setPath(rec.Variables, strings.Split(strings.TrimPrefix(p, "variables."), "."), "upload:"+fhs[0].Filename)
		}
	}
	return rec, nil
}

func setPath(root map[string]interface{}, parts []string, v interface{}) {
	var cur interface{} = root
	for i, p := range parts {
		last := i == len(parts)-1
		switch c := cur.(type) {
		case map[string]interface{}:
			if last {
				c[p] = v
				return
			}
			cur = c[p]
		case []interface{}:
			var idx int
			fmt.Sscanf(p, "%d", &idx)
			if idx < 0 || idx >= len(c) {
				return
			}
			if last {
				c[idx] = v
				return
			}
			cur = c[idx]
		default:
			return
		}
	}
}
