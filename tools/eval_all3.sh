#!/bin/bash
# recorded evaluation of the round-3 seeds: each change is applied to /repo, the quick tier of its own property's check runs, /repo is reverted
mkdir -p /verif/.scratch/seed3
for d in /tmp/wt3/C*.out/a /tmp/wt3/C*.out/b; do
  [ -f $d/patch.diff ] || continue
  id=$(echo $d | sed 's#/tmp/wt3/\(C[0-9]*\).out/.*#\1#')
  echo "=== $d"
  /verif/tools/run_seed.sh $d/patch.diff $id "$@" 2>&1
done
