#!/usr/bin/env python3
# prints the census files (and selected class counters) found in a VERIF_OUT directory; usage: census_show.py <dir> [substring of class names]
import json, os, glob, sys
d = sys.argv[1]
for f in glob.glob(d + '/census-C*.json'):
    c = json.load(open(f))
    for k, v in c['examples'].items():
        print('=====', k, c['counts'][k]); print(v[:1500])
if len(sys.argv) > 2:
    for f in glob.glob(d + '/stats-*.json'):
        s = json.load(open(f))
        print({a: b for a, b in s['classes'].items() if sys.argv[2] in a})
