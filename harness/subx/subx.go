// Package subx drives the gateway's graphql-ws endpoint from a harness-owned
// connection (net.Pipe handed over through an http.Hijacker) and provides
// scripted upstream subscription sources.
package subx

import (
	"bufio"
	"bytes"
	"context"
	"encoding/json"
	"errors"
	"fmt"
	"io"
	"net"
	"net/http"
	"net/http/httptest"
	"sync"
	"time"

	"github.com/buildbuildio/pebbles"
	"github.com/buildbuildio/pebbles/planner"
	"github.com/buildbuildio/pebbles/queryer"
	"github.com/buildbuildio/pebbles/requests"
	"github.com/gobwas/ws"
	"github.com/gobwas/ws/wsutil"

	"verif/harness/fake"
)

// ---- client side -----------------------------------------------------------------------

type Frame struct {
	Op      ws.OpCode
	Payload []byte
	Msg     map[string]interface{}
	// Err is set when the bytes on the wire do not form a complete well-formed frame / JSON message
	Err string
}

type ClientConn struct {
	c            net.Conn
	HandlerDone  chan struct{}
	Frames       chan Frame
	mu           sync.Mutex
	closed       bool
	ending       bool
	HandlerPanic string
}

type hijackWriter struct {
	conn   net.Conn
	header http.Header
	rw     *bufio.ReadWriter
}

func (h *hijackWriter) Header() http.Header         { return h.header }
func (h *hijackWriter) Write(b []byte) (int, error) { return h.conn.Write(b) }
func (h *hijackWriter) WriteHeader(int)             {}
func (h *hijackWriter) Hijack() (net.Conn, *bufio.ReadWriter, error) {
	return h.conn, h.rw, nil
}

// pausingConn models a slow link: after a short write (a frame header) the writer is descheduled for a moment,
// as it can be on a real socket between the two writes that make up one frame.
type pausingConn struct {
	net.Conn
	pause time.Duration
}

func (p *pausingConn) Write(b []byte) (int, error) {
	n, err := p.Conn.Write(b)
	if p.pause > 0 && len(b) <= 14 {
		time.Sleep(p.pause)
	}
	return n, err
}

// Connect runs gw.Handler on the server end of a pipe and completes the websocket handshake on the client end.
func Connect(gw *pebbles.Gateway) (*ClientConn, error) { return ConnectPausing(gw, 0) }

// ConnectPausing is Connect with a pause after every short write of the gateway (see pausingConn).
func ConnectPausing(gw *pebbles.Gateway, pause time.Duration) (*ClientConn, error) {
	cli, srvPipe := net.Pipe()
	var srv net.Conn = srvPipe
	if pause > 0 {
		srv = &pausingConn{Conn: srvPipe, pause: pause}
	}
	// like net/http: the request's context ends when the handler returns
	ctx, cancel := context.WithCancel(context.Background())
	req := httptest.NewRequest("GET", "http://gateway.test/graphql", nil).WithContext(ctx)
	req.Header.Set("Upgrade", "websocket")
	req.Header.Set("Connection", "Upgrade")
	req.Header.Set("Sec-WebSocket-Key", "dGhlIHNhbXBsZSBub25jZQ==")
	req.Header.Set("Sec-WebSocket-Version", "13")
	req.Header.Set("Sec-WebSocket-Protocol", "graphql-ws")
	hw := &hijackWriter{conn: srv, header: http.Header{}, rw: bufio.NewReadWriter(bufio.NewReader(srv), bufio.NewWriter(srv))}
	cc := &ClientConn{c: cli, HandlerDone: make(chan struct{}), Frames: make(chan Frame, 4096)}
	go func() {
		defer close(cc.HandlerDone)
		defer cancel()
		defer func() {
			if r := recover(); r != nil {
				cc.HandlerPanic = fmt.Sprint(r)
			}
		}()
		gw.Handler(hw, req)
	}()
	// read the 101 response
	br := bufio.NewReader(cli)
	cli.SetReadDeadline(time.Now().Add(5 * time.Second))
	resp, err := http.ReadResponse(br, req)
	if err != nil {
		cli.Close()
		return nil, fmt.Errorf("handshake: %v", err)
	}
	if resp.StatusCode != 101 {
		cli.Close()
		return nil, fmt.Errorf("handshake: status %d", resp.StatusCode)
	}
	cli.SetReadDeadline(time.Time{})
	go cc.readLoop(br)
	return cc, nil
}

func (cc *ClientConn) readLoop(r io.Reader) {
	defer close(cc.Frames)
	for {
		h, err := ws.ReadHeader(r)
		if err != nil {
			if !errors.Is(err, io.EOF) && !errors.Is(err, io.ErrClosedPipe) && !errors.Is(err, io.ErrUnexpectedEOF) {
				cc.Frames <- Frame{Err: "frame header: " + err.Error()}
			} else if errors.Is(err, io.ErrUnexpectedEOF) && !cc.locallyClosed() {
				cc.Frames <- Frame{Err: "truncated frame header"}
			}
			return
		}
		if h.Masked {
			cc.Frames <- Frame{Err: "server frame is masked"}
			return
		}
		if h.Rsv != 0 {
			cc.Frames <- Frame{Err: "reserved bits set"}
			return
		}
		if h.Length > 16<<20 {
			cc.Frames <- Frame{Err: fmt.Sprintf("implausible frame length %d", h.Length)}
			return
		}
		payload := make([]byte, h.Length)
		if _, err := io.ReadFull(r, payload); err != nil {
			// a frame cut short by the client's own disconnect is not something the client "received"
			if !cc.locallyClosed() {
				cc.Frames <- Frame{Err: "truncated frame payload"}
			}
			return
		}
		f := Frame{Op: h.OpCode, Payload: payload}
		switch h.OpCode {
		case ws.OpText:
			if !h.Fin {
				f.Err = "fragmented text frame"
			} else if err := json.Unmarshal(payload, &f.Msg); err != nil {
				f.Err = "text frame is not a JSON object: " + err.Error()
			} else if _, ok := f.Msg["type"].(string); !ok {
				f.Err = "message without type"
			}
		case ws.OpClose, ws.OpPing, ws.OpPong:
		default:
			f.Err = fmt.Sprintf("unexpected opcode %d", h.OpCode)
		}
		cc.Frames <- f
		if f.Err != "" {
			return
		}
	}
}

func (cc *ClientConn) SendJSON(v interface{}) error {
	b, _ := json.Marshal(v)
	return cc.SendRaw(b)
}

func (cc *ClientConn) SendRaw(b []byte) error {
	cc.c.SetWriteDeadline(time.Now().Add(3 * time.Second))
	return wsutil.WriteClientText(cc.c, b)
}

// SendPing sends a websocket ping frame (the server's websocket layer answers it with a pong on its own).
func (cc *ClientConn) SendPing() error {
	cc.c.SetWriteDeadline(time.Now().Add(3 * time.Second))
	return ws.WriteFrame(cc.c, ws.MaskFrameInPlace(ws.NewPingFrame([]byte("p"))))
}

// SendClose sends a websocket close frame (what a browser does when a page goes away) and leaves the connection open.
func (cc *ClientConn) SendClose() error {
	cc.c.SetWriteDeadline(time.Now().Add(3 * time.Second))
	return ws.WriteFrame(cc.c, ws.MaskFrameInPlace(ws.NewCloseFrame(ws.NewCloseFrameBody(ws.StatusNormalClosure, ""))))
}

func (cc *ClientConn) locallyClosed() bool {
	cc.mu.Lock()
	defer cc.mu.Unlock()
	return cc.closed || cc.ending
}

// MarkEnding records that the client is about to do something that ends the connection (terminate, a message
// the server answers by dropping the connection): a frame cut short by that end is the client's own doing.
func (cc *ClientConn) MarkEnding() {
	cc.mu.Lock()
	cc.ending = true
	cc.mu.Unlock()
}

// Close drops the connection abruptly.
func (cc *ClientConn) Close() {
	cc.mu.Lock()
	if !cc.closed {
		cc.closed = true
		cc.c.Close()
	}
	cc.mu.Unlock()
}

// Next returns the next non-keepalive frame.
func (cc *ClientConn) Next(timeout time.Duration) (Frame, bool) {
	deadline := time.After(timeout)
	for {
		select {
		case f, ok := <-cc.Frames:
			if !ok {
				return Frame{}, false
			}
			if f.Err == "" && f.Msg != nil && f.Msg["type"] == "ka" {
				continue
			}
			return f, true
		case <-deadline:
			return Frame{Err: "timeout"}, false
		}
	}
}

// ---- scripted upstream (in-process Queryer) -----------------------------------------------

type UpSub struct {
	URL    string
	Req    *requests.Request
	resCh  chan *requests.Response
	Closed chan struct{} // closed when the gateway signalled (or closed) the close channel
}

// Emit delivers one upstream message; ok=false if the gateway has already closed the channel.
func (s *UpSub) Emit(r *requests.Response, timeout time.Duration) (ok bool, err error) {
	defer func() {
		if rec := recover(); rec != nil {
			ok, err = false, fmt.Errorf("send on closed channel")
		}
	}()
	select {
	case s.resCh <- r:
		return true, nil
	case <-time.After(timeout):
		return false, fmt.Errorf("the gateway did not take the upstream message within %v", timeout)
	}
}

func (s *UpSub) WaitClosed(timeout time.Duration) bool {
	select {
	case <-s.Closed:
		return true
	case <-time.After(timeout):
		return false
	}
}

type Upstream struct {
	Net    *fake.Net
	NewSub chan *UpSub
	// FailSubscribe makes Subscribe return an error
	FailSubscribe bool
}

func NewUpstream(net *fake.Net) *Upstream {
	return &Upstream{Net: net, NewSub: make(chan *UpSub, 64)}
}

type scriptedQueryer struct {
	*queryer.MultiOpQueryer
	up  *Upstream
	url string
}

func (q *scriptedQueryer) Subscribe(req *requests.Request, closeCh <-chan struct{}, resCh chan *requests.Response) error {
	if q.up.FailSubscribe {
		return errors.New("scripted: subscribe refused")
	}
	s := &UpSub{URL: q.url, Req: req, resCh: resCh, Closed: make(chan struct{})}
	go func() {
		<-closeCh // a value or the close of the channel
		close(s.Closed)
	}()
	q.up.NewSub <- s
	return nil
}

// Factory is a pebbles.QueryerFactory: Query goes to the fake net through the real MultiOpQueryer, Subscribe is scripted.
func (u *Upstream) Factory() pebbles.QueryerFactory {
	client := &http.Client{Transport: u.Net}
	return func(ctx *planner.PlanningContext, url string) queryer.Queryer {
		q := queryer.NewMultiOpQueryer(url, 3000).WithHTTPClient(client)
		// like the gateway's default factory: downstream requests live as long as the client's request
		if ctx != nil && ctx.Request != nil && ctx.Request.Original != nil {
			q = q.WithContext(ctx.Request.Original.Context())
		}
		return &scriptedQueryer{MultiOpQueryer: q, up: u, url: url}
	}
}

// ---- real graphql-ws upstream on loopback ---------------------------------------------------

type WSSub struct {
	conn   net.Conn
	Start  map[string]interface{}
	ID     string
	Closed chan struct{} // closed when the gateway closed the TCP connection
	mu     sync.Mutex
}

func (s *WSSub) Send(v interface{}) error {
	b, _ := json.Marshal(v)
	s.mu.Lock()
	defer s.mu.Unlock()
	s.conn.SetWriteDeadline(time.Now().Add(2 * time.Second))
	return wsutil.WriteServerText(s.conn, b)
}

// SendFragmented sends the message as a fragmented websocket message: a text frame without FIN, then a continuation frame.
func (s *WSSub) SendFragmented(v interface{}) error {
	b, _ := json.Marshal(v)
	s.mu.Lock()
	defer s.mu.Unlock()
	s.conn.SetWriteDeadline(time.Now().Add(2 * time.Second))
	cut := len(b) / 2
	if err := ws.WriteFrame(s.conn, ws.NewFrame(ws.OpText, false, b[:cut])); err != nil {
		return err
	}
	return ws.WriteFrame(s.conn, ws.NewFrame(ws.OpContinuation, true, b[cut:]))
}

func (s *WSSub) SendRaw(b []byte) error {
	s.mu.Lock()
	defer s.mu.Unlock()
	s.conn.SetWriteDeadline(time.Now().Add(2 * time.Second))
	return wsutil.WriteServerText(s.conn, b)
}

func (s *WSSub) Disconnect() { s.conn.Close() }

func (s *WSSub) WaitClosed(timeout time.Duration) bool {
	select {
	case <-s.Closed:
		return true
	case <-time.After(timeout):
		return false
	}
}

// WSServer is a fake graphql-ws service: it acknowledges init, records start and lets the harness emit messages.
type WSServer struct {
	Server *httptest.Server
	NewSub chan *WSSub
	// HTTP handles ordinary POSTs (child steps of other operations)
	HTTP http.Handler
	// MuteClose (set before the first connection): the service never answers websocket close frames
	MuteClose bool
}

func NewWSServer(httpHandler http.Handler) *WSServer {
	s := &WSServer{NewSub: make(chan *WSSub, 64), HTTP: httpHandler}
	s.Server = httptest.NewServer(http.HandlerFunc(func(w http.ResponseWriter, r *http.Request) {
		if r.Header.Get("Upgrade") == "" {
			if s.HTTP != nil {
				s.HTTP.ServeHTTP(w, r)
				return
			}
			http.Error(w, "no http", 500)
			return
		}
		conn, _, _, err := ws.UpgradeHTTP(r, w)
		if err != nil {
			return
		}
		sub := &WSSub{conn: conn, Closed: make(chan struct{})}
		go func() {
			defer close(sub.Closed)
			defer conn.Close()
			for {
				var msg []byte
				if s.MuteClose {
					// a service that does not answer close frames (hung or busy): frames are read by hand, a close frame
					// is swallowed, and only the end of the TCP connection ends the loop
					hdr, err := ws.ReadHeader(conn)
					if err != nil {
						return
					}
					payload := make([]byte, hdr.Length)
					if _, err := io.ReadFull(conn, payload); err != nil {
						return
					}
					if hdr.Masked {
						ws.Cipher(payload, hdr.Mask, 0)
					}
					if hdr.OpCode != ws.OpText {
						continue
					}
					msg = payload
				} else {
					var err error
					msg, err = wsutil.ReadClientText(conn)
					if err != nil {
						return
					}
				}
				var m map[string]interface{}
				if json.Unmarshal(msg, &m) != nil {
					continue
				}
				switch m["type"] {
				case "connection_init":
					sub.Send(map[string]interface{}{"type": "connection_ack"})
				case "start":
					sub.Start, _ = m["payload"].(map[string]interface{})
					sub.ID, _ = m["id"].(string)
					s.NewSub <- sub
				}
			}
		}()
	}))
	return s
}

func (s *WSServer) Close() { s.Server.Close() }

// Body helper for diagnostics
func Dump(b []byte) string {
	if len(b) > 200 {
		b = b[:200]
	}
	return string(bytes.ToValidUTF8(b, []byte("?")))
}
