package props

import (
	"encoding/json"
	"fmt"
	"runtime"
	"strings"
	"sync"
	"testing"
	"time"

	"github.com/vektah/gqlparser/v2/ast"
	"pgregory.net/rapid"

	"verif/harness/ev"
	"verif/harness/fake"
	"verif/harness/gwx"
	"verif/harness/refexec"
)

// Fault: what a service does in answer to one HTTP call, identified by content (url + first query + occurrence).
type Fault struct {
	URL        string `json:"url"`
	Query      string `json:"query"`
	Occurrence int    `json:"occurrence"`
	Pos        int    `json:"pos"`
	Kind       string `json:"kind"`
}

type FaultCase struct {
	ExecCase
	Faults []Fault `json:"faults"`
	// Bystander is a healthy operation sent in the same batch (after the faulted one) and alone afterwards
	Bystander *gwx.GQLRequest `json:"bystander,omitempty"`
	// CleanData: the answer of the operation without faults (the same operation is repeated after the faulted run)
	CleanData map[string]interface{} `json:"clean_data,omitempty"`
	// History: the faulted run is preceded by this many runs of the same operation with the same fault on the same
	// gateway (a service that has been failing for a while)
	History int `json:"history,omitempty"`
}

var wholeCallKinds = []string{"transport", "body-cut", "status500", "status404", "status302", "status300-answer", "notjson", "notarray-object", "notarray-null", "single-object-errors", "single-object-errors-400", "status502-object", "status502-empty-errors", "array-trailing-garbage", "array-shorter", "array-longer"}
var elementKinds = []string{"elem-null", "elem-number", "errors-with-data", "errors-no-data", "errors-null-entry", "errors-empty-list", "data-missing", "data-null"}
var nodeKinds = []string{"node-missing", "node-null", "node-string", "node-list", "node-number"}
var shapeKinds = []string{"obj->list", "list->obj", "scalar-for-object", "list-entries-nonmaps", "null-for-list", "drop-id", "id-number", "id-object"}

// failureSignal: kinds for which the client's errors must be non-empty.
func failureSignal(kind string) bool {
	switch kind {
	case "transport", "body-cut", "status500", "status404", "status302", "status300-answer", "notjson", "notarray-object", "notarray-null", "single-object-errors", "single-object-errors-400", "status502-object", "status502-empty-errors", "array-trailing-garbage", "array-shorter", "array-longer",
		"errors-with-data", "errors-no-data", "errors-null-entry", "data-missing", "node-missing", "node-string", "node-list", "node-number":
		return true
	}
	return false
}

// firstPath finds (depth-first, sorted keys) the first location in v satisfying pred and applies fn to its holder.
func mutateFirst(v interface{}, pred func(interface{}) bool, repl func(interface{}) interface{}) (interface{}, bool) {
	switch x := v.(type) {
	case map[string]interface{}:
		keys := make([]string, 0, len(x))
		for k := range x {
			keys = append(keys, k)
		}
		sortStrings(keys)
		for _, k := range keys {
			if pred(x[k]) {
				x[k] = repl(x[k])
				return x, true
			}
		}
		for _, k := range keys {
			if nv, ok := mutateFirst(x[k], pred, repl); ok {
				x[k] = nv
				return x, true
			}
		}
	case []interface{}:
		for i := range x {
			if nv, ok := mutateFirst(x[i], pred, repl); ok {
				x[i] = nv
				return x, true
			}
		}
	}
	return v, false
}

func sortStrings(a []string) {
	for i := 1; i < len(a); i++ {
		for j := i; j > 0 && a[j] < a[j-1]; j-- {
			a[j], a[j-1] = a[j-1], a[j]
		}
	}
}

func isMap(v interface{}) bool  { _, ok := v.(map[string]interface{}); return ok }
func isList(v interface{}) bool { _, ok := v.([]interface{}); return ok }
func isListOfMaps(v interface{}) bool {
	l, ok := v.([]interface{})
	if !ok || len(l) == 0 {
		return false
	}
	for _, e := range l {
		if e != nil && !isMap(e) {
			return false
		}
	}
	return true
}

// applyFault computes the faulted HTTP response; ok=false when the kind does not apply to this call.
func applyFault(f Fault, reqs []*fake.Received, normal []map[string]interface{}) (*fake.FaultResponse, bool) {
	marshal := func(v interface{}) []byte { b, _ := json.Marshal(v); return b }
	switch f.Kind {
	case "transport":
		// which error is a function of the faulted request, not of its (schedule-dependent) neighbours in the call
		key := ""
		if f.Query != "" {
			key = f.URL + f.Query
		} else if f.Pos >= 0 && f.Pos < len(reqs) {
			key = reqs[f.Pos].Service + reqs[f.Pos].Query
		} else if len(reqs) > 0 {
			key = reqs[0].Service
		}
		return &fake.FaultResponse{Err: fake.TransportError(key)}, true
	case "body-cut":
		b := marshal(normal)
		return &fake.FaultResponse{Body: b, CutAfter: len(b)/2 + 1}, true
	case "status500":
		return &fake.FaultResponse{Status: 500, Body: marshal(normal)}, true
	case "status404":
		return &fake.FaultResponse{Status: 404, Body: []byte("not found")}, true
	case "status302":
		return &fake.FaultResponse{Status: 302, Body: []byte("")}, true
	case "status300-answer":
		// a redirect-class status the client does not follow, with a well-formed answer as body: still not a success
		return &fake.FaultResponse{Status: 300, Body: marshal(normal)}, true
	case "single-object-errors":
		// a service (or a proxy in front of it) refusing the batch as a whole with one error object
		return &fake.FaultResponse{Body: []byte(`{"errors":[{"message":"batched requests are not supported"}]}`)}, true
	case "single-object-errors-400":
		return &fake.FaultResponse{Status: 400, Body: []byte(`{"errors":[{"message":"batched requests are not supported"}]}`)}, true
	case "status502-object":
		// what a proxy in front of the service says: a JSON object that is no GraphQL answer
		return &fake.FaultResponse{Status: 502, Body: []byte(`{"message":"Bad Gateway","code":502}`)}, true
	case "status502-empty-errors":
		return &fake.FaultResponse{Status: 502, Body: []byte(`{"errors":[],"data":null}`)}, true
	case "array-trailing-garbage":
		// a well-formed answer followed by more bytes is not a well-formed answer
		return &fake.FaultResponse{Body: append(marshal(normal), []byte(`{"errors":[{"message":"late failure"}]}`)...)}, true
	case "notjson":
		return &fake.FaultResponse{Body: []byte("<html>oops</html>")}, true
	case "notarray-object":
		return &fake.FaultResponse{Body: marshal(normal[0])}, true
	case "notarray-null":
		return &fake.FaultResponse{Body: []byte("null")}, true
	case "array-shorter":
		return &fake.FaultResponse{Body: marshal(normal[:len(normal)-1])}, true
	case "array-longer":
		return &fake.FaultResponse{Body: marshal(append(append([]map[string]interface{}{}, normal...), normal[len(normal)-1]))}, true
	}
	if f.Pos < 0 || f.Pos >= len(normal) {
		return nil, false
	}
	elems := make([]interface{}, len(normal))
	for i, n := range normal {
		elems[i] = refexec.Normalize(n)
	}
	el, _ := elems[f.Pos].(map[string]interface{})
	data, _ := el["data"].(map[string]interface{})
	// the `node` of the statement is the gateway's own lookup (a child request), not a node(id:) root field of the client
	isNode := data != nil && len(data) == 1 && func() bool { _, ok := data["node"]; return ok }() &&
		f.Pos < len(reqs) && strings.Contains(reqs[f.Pos].Query, "node(id: $id)")
	switch f.Kind {
	case "elem-null":
		elems[f.Pos] = nil
	case "elem-number":
		elems[f.Pos] = 5
	case "errors-with-data":
		el["errors"] = []interface{}{map[string]interface{}{"message": "injected failure", "extensions": map[string]interface{}{"code": "INJECTED"}}}
	case "errors-no-data":
		elems[f.Pos] = map[string]interface{}{"errors": []interface{}{map[string]interface{}{"message": "injected failure"}}}
	case "errors-null-entry":
		// an errors list whose only entry is null is still a failure signal
		elems[f.Pos] = map[string]interface{}{"data": nil, "errors": []interface{}{nil}}
	case "errors-empty-list":
		// "errors": [] next to the data is no failure at all (some servers always send the key)
		el["errors"] = []interface{}{}
	case "data-missing":
		elems[f.Pos] = map[string]interface{}{}
	case "data-null":
		elems[f.Pos] = map[string]interface{}{"data": nil}
	case "node-missing", "node-null", "node-string", "node-list", "node-number":
		if !isNode {
			return nil, false
		}
		switch f.Kind {
		case "node-missing":
			delete(data, "node")
		case "node-null":
			data["node"] = nil
		case "node-string":
			data["node"] = "not-an-object"
		case "node-list":
			data["node"] = []interface{}{data["node"]}
		case "node-number":
			data["node"] = 17
		}
	default:
		if data == nil {
			return nil, false
		}
		var ok bool
		switch f.Kind {
		case "obj->list":
			_, ok = mutateFirst(data, isMap, func(v interface{}) interface{} { return []interface{}{v} })
		case "list->obj":
			_, ok = mutateFirst(data, isList, func(v interface{}) interface{} {
				l := v.([]interface{})
				if len(l) > 0 && isMap(l[0]) {
					return l[0]
				}
				return map[string]interface{}{}
			})
		case "scalar-for-object":
			_, ok = mutateFirst(data, isMap, func(v interface{}) interface{} { return "oops-scalar" })
		case "list-entries-nonmaps":
			_, ok = mutateFirst(data, isListOfMaps, func(v interface{}) interface{} { return []interface{}{1, "x", nil, true} })
		case "null-for-list":
			_, ok = mutateFirst(data, isList, func(v interface{}) interface{} { return nil })
		case "drop-id", "id-number", "id-object":
			hasID := func(v interface{}) bool {
				m, ok := v.(map[string]interface{})
				if !ok {
					return false
				}
				_, has := m["id"]
				return has
			}
			_, ok = mutateFirst(map[string]interface{}{"root": data}, hasID, func(v interface{}) interface{} {
				m := v.(map[string]interface{})
				switch f.Kind {
				case "drop-id":
					delete(m, "id")
				case "id-number":
					m["id"] = 42
				case "id-object":
					m["id"] = map[string]interface{}{"x": 1}
				}
				return m
			})
		}
		if !ok {
			return nil, false
		}
	}
	return &fake.FaultResponse{Body: marshal(elems)}, true
}

func scalarLeaves(v interface{}, out map[string]bool) {
	switch x := v.(type) {
	case map[string]interface{}:
		for _, vv := range x {
			scalarLeaves(vv, out)
		}
	case []interface{}:
		for _, vv := range x {
			scalarLeaves(vv, out)
		}
	case string:
		out["s:"+x] = true
	case float64:
		out[fmt.Sprintf("n:%v", x)] = true
	case bool:
		out[fmt.Sprintf("b:%v", x)] = true
	}
}

func pebblesGoroutines() int {
	buf := make([]byte, 1<<20)
	n := runtime.Stack(buf, true)
	cnt := 0
	for _, g := range strings.Split(string(buf[:n]), "\n\n") {
		if strings.Contains(g, "github.com/buildbuildio/pebbles") {
			cnt++
		}
	}
	return cnt
}

type callRecord struct {
	URL, Query string
	Occurrence int
	BatchSize  int
	IsChild    bool
}

// recordCalls lists the HTTP calls of a clean run, identified by content.
func recordCalls(log []*fake.Received) []callRecord {
	var calls []callRecord
	occ := map[string]int{}
	byCall := map[string][]*fake.Received{}
	order := []string{}
	for _, r := range log {
		k := fmt.Sprintf("%s#%d", r.Service, r.Call)
		if _, ok := byCall[k]; !ok {
			order = append(order, k)
		}
		byCall[k] = append(byCall[k], r)
	}
	for _, k := range order {
		rs := byCall[k]
		key := rs[0].Service + "\x00" + rs[0].Query
		calls = append(calls, callRecord{URL: rs[0].Service, Query: rs[0].Query, Occurrence: occ[key], BatchSize: len(rs), IsChild: strings.Contains(rs[0].Query, "node(id: $id)")})
		occ[key]++
	}
	return calls
}

func installFaults(net *fake.Net, faults []Fault, hit *int, hitKinds *[]string) {
	occ := map[string]int{}
	occURL := map[string]int{}
	var mu sync.Mutex
	net.Fault = func(callIdx int, url string, reqs []*fake.Received, normal []map[string]interface{}) *fake.FaultResponse {
		if len(reqs) == 0 {
			return nil
		}
		mu.Lock()
		defer mu.Unlock()
		nu := occURL[url]
		occURL[url]++
		// a call is identified by the query text of ANY of its requests (their order inside a call is scheduling dependent)
		counted := map[string]bool{}
		nOf := map[string]int{}
		for _, rq := range reqs {
			key := url + "\x00" + rq.Query
			if !counted[key] {
				counted[key] = true
				nOf[rq.Query] = occ[key]
				occ[key]++
			}
		}
		for _, f := range faults {
			n, carries := nOf[f.Query]
			// a fault without query text addresses the n-th call to the service (hand-written cases)
			if f.URL == url && (carries && f.Occurrence == n || f.Query == "" && f.Occurrence == nu) {
				if fr, ok := applyFault(f, reqs, normal); ok {
					*hit++
					*hitKinds = append(*hitKinds, f.Kind)
					return fr
				}
			}
		}
		return nil
	}
}

// checkC09 runs the operation with the faults injected. applied=false: the fault did not apply (call absent / kind not applicable).
func checkC09(c *FaultCase) (f *ev.Failure, applied bool) {
	held0 := fake.HeldBodies()
	net, err := fake.NewNet(c.World)
	if err != nil {
		return ev.Failf("harness", "%v", err), false
	}
	gw, err := gwx.Build(c.World, net, c.Config)
	if err != nil {
		return ev.Failf("harness", "world does not merge: %v", err), false
	}
	// clean answers of the bystander
	var byClean *gwx.GQLResponse
	if c.Bystander != nil {
		r := gwx.PostOp(gw, *c.Bystander, 10*time.Second)
		if r.TimedOut || r.Panic != "" || r.Status != 200 {
			return nil, false // bystander itself is not healthy: outside this case's claim
		}
		byClean, _ = gwx.Decode(r.Body)
		if byClean == nil || len(byClean.Errors) > 0 {
			return nil, false
		}
		net.Reset()
	}
	main := gwx.GQLRequest{Query: c.Op.Query, Variables: c.Op.Variables, OperationName: c.Op.OperationName}
	for i := 0; i < c.History; i++ {
		h := 0
		var hk []string
		installFaults(net, c.Faults, &h, &hk)
		if r := gwx.PostOp(gw, main, 10*time.Second); r.TimedOut {
			return ev.Failf("hang", "request %d of a series of requests that meet the same fault was not answered within 10s", i), true
		} else if r.Panic != "" {
			return ev.Failf("panic:"+gwx.PanicSite(r.Panic), "handler panicked on request %d of a series with the same fault: %s", i, trunc(r.Panic, 1200)), true
		}
		net.Reset()
	}
	hit := 0
	var hitKinds []string
	installFaults(net, c.Faults, &hit, &hitKinds)
	var body []byte
	if c.Bystander != nil {
		body, _ = json.Marshal([]gwx.GQLRequest{main, *c.Bystander})
	} else {
		body, _ = json.Marshal(main)
	}
	resp := gwx.Post(gw, body, "application/json", 10*time.Second)
	if hit == 0 {
		return nil, false
	}
	kinds := []string{}
	signal := false
	for _, k := range hitKinds { // only faults that were actually served count
		kinds = append(kinds, k)
		if failureSignal(k) {
			signal = true
		}
	}
	kind := strings.Join(kinds, "+")
	if resp.TimedOut {
		return ev.Failf("hang", "no response within 10s with fault %s", kind), true
	}
	if resp.Panic != "" {
		return ev.Failf("panic:"+gwx.PanicSite(resp.Panic), "handler panicked with fault %s: %s", kind, trunc(resp.Panic, 1200)), true
	}
	if resp.Status != 200 {
		return ev.Failf("envelope", "status %d with fault %s", resp.Status, kind), true
	}
	var results []*gwx.GQLResponse
	if c.Bystander != nil {
		var raw []json.RawMessage
		if err := json.Unmarshal(resp.Body, &raw); err != nil || len(raw) != 2 {
			return ev.Failf("envelope", "batch response is not a 2-element array with fault %s: %s", kind, trunc(string(resp.Body), 300)), true
		}
		for _, r := range raw {
			d, err := gwx.Decode(r)
			if err != nil {
				return ev.Failf("envelope", "result is not an object: %s", trunc(string(r), 200)), true
			}
			results = append(results, d)
		}
	} else {
		d, err := gwx.Decode(resp.Body)
		if err != nil {
			return ev.Failf("envelope", "response is not JSON with fault %s: %s", kind, trunc(string(resp.Body), 300)), true
		}
		results = []*gwx.GQLResponse{d}
	}
	var parsed interface{}
	_ = json.Unmarshal(resp.Body, &parsed)
	first := parsed
	if l, ok := parsed.([]interface{}); ok && len(l) > 0 {
		first = l[0]
	}
	if msg := envelopeOK(first); msg != "" {
		return ev.Failf("envelope", "%s with fault %s: %s", msg, kind, trunc(string(resp.Body), 300)), true
	}
	mainRes := results[0]
	if signal && len(mainRes.Errors) == 0 {
		return ev.Failf("masked:"+kind, "the service answered with a failure signal (%s) but the client's errors is empty; data %s", kind, trunc(jsonOf(mainRes.Data), 400)), true
	}
	if kind == "errors-empty-list" && c.CleanData != nil {
		// nothing failed: the answer is the clean answer
		if len(mainRes.Errors) > 0 {
			return ev.Failf("spurious-errors", "a service answered with data and an empty errors list, the client gets errors: %s", trunc(jsonOf(mainRes.Errors), 400)), true
		}
		if cls, msg := refexec.Diff(refexec.Prune(refexec.Normalize(c.CleanData)), refexec.Prune(refexec.Normalize(map[string]interface{}(mainRes.Data))), "data"); cls != "" {
			return ev.Failf("spurious-errors:data", "a service answered with data and an empty errors list, the answer differs from the clean one: %s", msg), true
		}
	}
	// taint: every scalar leaf of data was returned by some service during this request
	returned := map[string]bool{}
	for _, b := range net.Bodies() {
		var v interface{}
		if json.Unmarshal(b, &v) == nil {
			scalarLeaves(v, returned)
		}
	}
	got := map[string]bool{}
	fromServices := map[string]interface{}{}
	for k, v := range mainRes.Data {
		if s, ok := v.(string); ok && (s == "Query" || s == "Mutation") {
			continue // a root __typename is answered by the gateway itself
		}
		fromServices[k] = v
	}
	scalarLeaves(fromServices, got)
	for k := range got {
		if !returned[k] {
			return ev.Failf("taint", "data contains %s which no service returned (fault %s): %s", k, kind, trunc(jsonOf(mainRes.Data), 400)), true
		}
	}
	if c.Bystander != nil {
		by := results[1]
		if cls, msg := refexec.Diff(refexec.Normalize(byClean.Data), refexec.Normalize(by.Data), "data"); cls != "" || len(by.Errors) > 0 {
			return ev.Failf("bystander", "a healthy operation in the same batch was affected by fault %s: %s errors=%v", kind, msg, by.Errors), true
		}
	}
	// later requests are unaffected: the same operation, now answered healthily, gets its clean answer
	net.Fault = nil
	if c.CleanData != nil {
		r := gwx.PostOp(gw, main, 10*time.Second)
		d, _ := gwx.Decode(r.Body)
		if r.TimedOut || r.Panic != "" || d == nil {
			return ev.Failf("later-request", "the operation could not be repeated after fault %s: %s", kind, trunc(r.Panic, 200)), true
		}
		if len(d.Errors) > 0 {
			return ev.Failf("later-request", "after fault %s the same operation, answered healthily by every service, is reported with errors: %s", kind, trunc(jsonOf(d.Errors), 400)), true
		}
		if cls, msg := refexec.Diff(refexec.Prune(refexec.Normalize(c.CleanData)), refexec.Prune(refexec.Normalize(map[string]interface{}(d.Data))), "data"); cls != "" {
			return ev.Failf("later-request", "after fault %s the same operation gets a different answer: %s", kind, msg), true
		}
	}
	if c.Bystander != nil {
		r := gwx.PostOp(gw, *c.Bystander, 10*time.Second)
		d, _ := gwx.Decode(r.Body)
		if r.TimedOut || r.Panic != "" || d == nil || len(d.Errors) > 0 {
			return ev.Failf("bystander", "a later healthy request failed after fault %s", kind), true
		}
		if cls, msg := refexec.Diff(refexec.Normalize(byClean.Data), refexec.Normalize(d.Data), "data"); cls != "" {
			return ev.Failf("bystander", "a later healthy request was affected by fault %s: %s", kind, msg), true
		}
	}
	deadline := time.Now().Add(20 * time.Second) // a leak lasts forever; the limit is paid only on failure
	for pebblesGoroutines() > 0 {
		if time.Now().After(deadline) {
			return ev.Failf("leak", "%d pebbles goroutines remain 20s after the request with fault %s", pebblesGoroutines(), kind), true
		}
		time.Sleep(300 * time.Microsecond)
	}
	// a response body that is neither read to its end nor closed keeps its connection: under a connection limit
	// later requests to that service would wait for it forever
	for fake.HeldBodies() > held0 {
		if time.Now().After(deadline) {
			return ev.Failf("later-request:held-response-body", "%d downstream response bodies were neither drained nor closed after fault %s (their connections are never given back)", fake.HeldBodies()-held0, kind), true
		}
		time.Sleep(300 * time.Microsecond)
	}
	return nil, true
}

func c09Gate(kind string) string { return "fault." + kind }

func TestC09(t *testing.T) {
	rec := ev.Get("C09")
	rec.Rule = "for each generated (world, store, operation, max batch size) a clean run records the downstream HTTP calls; then EVERY (fault kind x call x batch position) is injected one at a time (34 kinds: transport error, 500/404/302, 300 with a well-formed answer, 502 with a JSON object that is no answer, an answer followed by trailing bytes, not JSON, not an array, one error object for the whole batch (200/400), array shorter/longer, element null/number, errors with/without data, data missing/null, node missing/null/string/list/number, object<->list, scalar for object, non-map list entries, null list, id dropped/number/object), plus one sampled pair of faults, now and then a series of 120..200 requests meeting the same fault on one gateway before the checked run, with and without a healthy bystander operation in the same batch; evaluations counts injections; non-trivial = the faulted call is a child step (depth>=1) or carries >=2 requests; distinct by (query text of the call, kind, position class, batch size)"
	defer census.dump("C09")
	rapid.Check(t, func(t *rapid.T) {
		base, _ := genExecCase(t, rec, ast.Query)
		if base == nil {
			return
		}
		if rapid.IntRange(0, 2).Draw(t, "smallbatch") == 0 {
			base.Config.MaxBatch = rapid.IntRange(1, 2).Draw(t, "maxbatch")
		}
		base.Config.Planner = "" // the cache is not under test here
		fs := caseFeatures(base)
		if g := closedGateIn(fs); g != "" {
			rec.Exclude(g)
			return
		}
		// clean run
		ev.Current("C09", &FaultCase{ExecCase: *base})
		f0, out := checkC01(base)
		if out == nil || out.Skip != "" || f0 != nil {
			rec.Class("skip:clean-run-not-clean", 1)
			return
		}
		calls := recordCalls(out.Log)
		if len(calls) == 0 {
			rec.Class("skip:no-downstream-call", 1)
			return
		}
		if len(calls) < 2 && rapid.IntRange(0, 9).Draw(t, "keepSingleCall") < 7 {
			rec.Class("skip:single-call-thinned", 1)
			return
		}
		var bystander *gwx.GQLRequest
		if rapid.IntRange(0, 1).Draw(t, "bystander") == 0 {
			bystander = &gwx.GQLRequest{Query: "{ __schema { queryType { name } } }"}
		}
		run := func(faults []Fault, history ...int) {
			fc := &FaultCase{ExecCase: *base, Faults: faults, Bystander: bystander, CleanData: out.Expected}
			if len(history) > 0 {
				fc.History = history[0]
			}
			for _, ft := range faults {
				if gateClosed(c09Gate(ft.Kind)) {
					rec.Exclude(c09Gate(ft.Kind))
					return
				}
			}
			ev.Current("C09", fc)
			f, applied := checkC09(fc)
			if !applied && f == nil {
				return
			}
			var call callRecord
			for _, cr := range calls {
				if cr.URL == faults[0].URL && cr.Query == faults[0].Query && cr.Occurrence == faults[0].Occurrence {
					call = cr
				}
			}
			nt := call.IsChild || call.BatchSize >= 2
			posClass := "first"
			if faults[0].Pos > 0 {
				posClass = "later"
			}
			labels := []string{"kind=" + faults[0].Kind, fmt.Sprintf("batchsize=%d", minInt(call.BatchSize, 4))}
			if call.IsChild {
				labels = append(labels, "childStep")
			}
			if len(faults) > 1 {
				labels = append(labels, "twoFaults")
			}
			if bystander != nil {
				labels = append(labels, "bystander")
			}
			if fc.History > 0 {
				labels = append(labels, "afterLongFailureHistory")
			}
			rec.Case(ev.Hash(faults[0].Query, faults[0].Kind, posClass, call.BatchSize, len(faults)), nt, labels...)
			rec.Sample(nt, func() interface{} {
				return map[string]interface{}{"op": base.Op.Query, "fault": faults, "call_batch_size": call.BatchSize, "child_step": call.IsChild}
			})
			if f != nil {
				if isCensus() {
					census.add(f.Signature, base.Op.Query+" ## "+trunc(f.Message, 300))
					return
				}
				if only := onlySig(); only != "" && !strings.HasPrefix(f.Signature, only) {
					return
				}
				ev.WriteFail("C09", fc, f)
				t.Fatalf("%v", f)
			}
		}
		all := append(append(append(append([]string{}, wholeCallKinds...), elementKinds...), nodeKinds...), shapeKinds...)
		for _, cr := range calls {
			for _, k := range all {
				whole := false
				for _, w := range wholeCallKinds {
					if w == k {
						whole = true
					}
				}
				if whole {
					run([]Fault{{URL: cr.URL, Query: cr.Query, Occurrence: cr.Occurrence, Kind: k}})
					continue
				}
				for pos := 0; pos < cr.BatchSize && pos < 3; pos++ {
					run([]Fault{{URL: cr.URL, Query: cr.Query, Occurrence: cr.Occurrence, Pos: pos, Kind: k}})
				}
			}
		}
		// now and then: the same fault met 120..200 times in a row on one gateway, then the checked run and the healthy repeat
		if rapid.IntRange(0, 11).Draw(t, "history") == 0 {
			cr := calls[rapid.IntRange(0, len(calls)-1).Draw(t, "hcall")]
			k := rapid.SampledFrom([]string{"status500", "transport", "errors-no-data", "notjson"}).Draw(t, "hkind")
			run([]Fault{{URL: cr.URL, Query: cr.Query, Occurrence: cr.Occurrence, Kind: k}}, rapid.IntRange(120, 200).Draw(t, "hlen"))
		}
		// one sampled pair of faults
		if len(calls) >= 2 {
			a := calls[rapid.IntRange(0, len(calls)-1).Draw(t, "fa")]
			b := calls[rapid.IntRange(0, len(calls)-1).Draw(t, "fb")]
			ka := all[rapid.IntRange(0, len(all)-1).Draw(t, "ka")]
			kb := all[rapid.IntRange(0, len(all)-1).Draw(t, "kb")]
			run([]Fault{{URL: a.URL, Query: a.Query, Occurrence: a.Occurrence, Kind: ka}, {URL: b.URL, Query: b.Query, Occurrence: b.Occurrence, Kind: kb}})
		}
	})
}

func init() {
	replayers["C09"] = func(path string) (*ev.Failure, error) {
		var c FaultCase
		if _, _, err := ev.LoadCase(path, &c); err != nil {
			return nil, err
		}
		f, applied := checkC09(&c)
		if f == nil && !applied {
			return nil, fmt.Errorf("the fault of the replay case does not apply (call absent)")
		}
		return f, nil
	}
}
