// Package introspect holds the harness's own reading of the GraphQL
// introspection system (October 2021 spec, as far as gqlparser's prelude
// declares it): a resolver answering arbitrary introspection operations over an
// ast.Schema, and a "standard client" that rebuilds a schema from the answer to
// the standard introspection query.
package introspect

import (
	"fmt"
	"sort"
	"strings"

	"github.com/vektah/gqlparser/v2/ast"
)

// Resolver answers __schema / __type selections.
type Resolver struct {
	Schema *ast.Schema
	Vars   map[string]interface{}
}

type metaObj interface {
	typeName() string
	field(r *Resolver, name string, args map[string]interface{}) interface{}
}

// ResolveRoot resolves the introspection root fields (__schema, __type, __typename) of an operation's selection set.
func (r *Resolver) ResolveRoot(ss ast.SelectionSet, rootTypeName string) map[string]interface{} {
	return r.selection(&rootObj{name: rootTypeName}, ss)
}

type rootObj struct{ name string }

func (o *rootObj) typeName() string { return o.name }
func (o *rootObj) field(r *Resolver, name string, args map[string]interface{}) interface{} {
	switch name {
	case "__schema":
		return &schemaObj{}
	case "__type":
		n, _ := args["name"].(string)
		d := r.Schema.Types[n]
		if d == nil {
			return nil
		}
		return &typeObj{t: ast.NamedType(n, nil)}
	}
	return nil
}

func (r *Resolver) skipped(dl ast.DirectiveList) bool {
	val := func(d *ast.Directive) bool {
		a := d.Arguments.ForName("if")
		if a == nil {
			return false
		}
		v, err := a.Value.Value(r.Vars)
		if err != nil {
			return false
		}
		b, _ := v.(bool)
		return b
	}
	if d := dl.ForName("skip"); d != nil && val(d) {
		return true
	}
	if d := dl.ForName("include"); d != nil && !val(d) {
		return true
	}
	return false
}

type group struct {
	key    string
	fields []*ast.Field
}

func (r *Resolver) collect(typeName string, ss ast.SelectionSet, out *[]*group, idx map[string]*group, seen map[string]bool) {
	for _, sel := range ss {
		switch s := sel.(type) {
		case *ast.Field:
			if r.skipped(s.Directives) {
				continue
			}
			key := s.Alias
			if key == "" {
				key = s.Name
			}
			g := idx[key]
			if g == nil {
				g = &group{key: key}
				idx[key] = g
				*out = append(*out, g)
			}
			g.fields = append(g.fields, s)
		case *ast.InlineFragment:
			if r.skipped(s.Directives) || (s.TypeCondition != "" && s.TypeCondition != typeName) {
				continue
			}
			r.collect(typeName, s.SelectionSet, out, idx, seen)
		case *ast.FragmentSpread:
			if r.skipped(s.Directives) || seen[s.Name] || s.Definition == nil || s.Definition.TypeCondition != typeName {
				continue
			}
			seen[s.Name] = true
			r.collect(typeName, s.Definition.SelectionSet, out, idx, seen)
		}
	}
}

func (r *Resolver) selection(obj metaObj, ss ast.SelectionSet) map[string]interface{} {
	var groups []*group
	r.collect(obj.typeName(), ss, &groups, map[string]*group{}, map[string]bool{})
	res := map[string]interface{}{}
	for _, g := range groups {
		f := g.fields[0]
		if f.Name == "__typename" {
			res[g.key] = obj.typeName()
			continue
		}
		var subs ast.SelectionSet
		for _, gf := range g.fields {
			subs = append(subs, gf.SelectionSet...)
		}
		v := obj.field(r, f.Name, f.ArgumentMap(r.Vars))
		res[g.key] = r.complete(v, subs)
	}
	return res
}

func (r *Resolver) complete(v interface{}, subs ast.SelectionSet) interface{} {
	switch x := v.(type) {
	case nil:
		return nil
	case metaObj:
		if isNilMeta(x) {
			return nil
		}
		return r.selection(x, subs)
	case []metaObj:
		res := make([]interface{}, len(x))
		for i, o := range x {
			res[i] = r.selection(o, subs)
		}
		return res
	}
	return v
}

func isNilMeta(m metaObj) bool {
	switch x := m.(type) {
	case *typeObj:
		return x == nil
	case *schemaObj:
		return x == nil
	}
	return false
}

// ---- __Schema ----

type schemaObj struct{}

func (o *schemaObj) typeName() string { return "__Schema" }
func (o *schemaObj) field(r *Resolver, name string, args map[string]interface{}) interface{} {
	s := r.Schema
	switch name {
	case "description":
		if s.Description == "" {
			return nil
		}
		return s.Description
	case "types":
		names := make([]string, 0, len(s.Types))
		for n := range s.Types {
			names = append(names, n)
		}
		sort.Strings(names)
		res := make([]metaObj, len(names))
		for i, n := range names {
			res[i] = &typeObj{t: ast.NamedType(n, nil)}
		}
		return res
	case "queryType":
		if s.Query == nil {
			return nil
		}
		return &typeObj{t: ast.NamedType(s.Query.Name, nil)}
	case "mutationType":
		if s.Mutation == nil {
			return nil
		}
		return &typeObj{t: ast.NamedType(s.Mutation.Name, nil)}
	case "subscriptionType":
		if s.Subscription == nil {
			return nil
		}
		return &typeObj{t: ast.NamedType(s.Subscription.Name, nil)}
	case "directives":
		names := make([]string, 0, len(s.Directives))
		for n := range s.Directives {
			names = append(names, n)
		}
		sort.Strings(names)
		res := make([]metaObj, len(names))
		for i, n := range names {
			res[i] = &directiveObj{d: s.Directives[n]}
		}
		return res
	}
	return nil
}

// ---- __Type ----

type typeObj struct{ t *ast.Type }

func (o *typeObj) typeName() string { return "__Type" }

func strOrNil(s string) interface{} {
	if s == "" {
		return nil
	}
	return s
}

func includeDeprecated(args map[string]interface{}) bool {
	b, _ := args["includeDeprecated"].(bool)
	return b
}

func deprecation(dl ast.DirectiveList) (bool, interface{}) {
	d := dl.ForName("deprecated")
	if d == nil {
		return false, nil
	}
	if a := d.Arguments.ForName("reason"); a != nil && a.Value != nil {
		if a.Value.Kind == ast.NullValue {
			return true, nil
		}
		return true, a.Value.Raw
	}
	return true, "No longer supported"
}

func (o *typeObj) field(r *Resolver, name string, args map[string]interface{}) interface{} {
	t := o.t
	if t.NonNull {
		switch name {
		case "kind":
			return "NON_NULL"
		case "ofType":
			cp := *t
			cp.NonNull = false
			return &typeObj{t: &cp}
		}
		return nil
	}
	if t.Elem != nil {
		switch name {
		case "kind":
			return "LIST"
		case "ofType":
			return &typeObj{t: t.Elem}
		}
		return nil
	}
	d := r.Schema.Types[t.NamedType]
	if d == nil {
		return nil
	}
	switch name {
	case "kind":
		return string(d.Kind)
	case "name":
		return d.Name
	case "description":
		return strOrNil(d.Description)
	case "specifiedByURL":
		if dd := d.Directives.ForName("specifiedBy"); dd != nil {
			if a := dd.Arguments.ForName("url"); a != nil {
				return a.Value.Raw
			}
		}
		return nil
	case "fields":
		if d.Kind != ast.Object && d.Kind != ast.Interface {
			return nil
		}
		res := []metaObj{}
		for _, f := range d.Fields {
			if strings.HasPrefix(f.Name, "__") {
				continue
			}
			if dep, _ := deprecation(f.Directives); dep && !includeDeprecated(args) {
				continue
			}
			res = append(res, &fieldObj{f: f})
		}
		return res
	case "interfaces":
		if d.Kind != ast.Object && d.Kind != ast.Interface {
			return nil
		}
		res := []metaObj{}
		for _, in := range d.Interfaces {
			res = append(res, &typeObj{t: ast.NamedType(in, nil)})
		}
		return res
	case "possibleTypes":
		if d.Kind != ast.Interface && d.Kind != ast.Union {
			return nil
		}
		res := []metaObj{}
		names := []string{}
		for _, pt := range r.Schema.PossibleTypes[d.Name] {
			if pt.Kind == ast.Object {
				names = append(names, pt.Name)
			}
		}
		sort.Strings(names)
		for _, n := range names {
			res = append(res, &typeObj{t: ast.NamedType(n, nil)})
		}
		return res
	case "enumValues":
		if d.Kind != ast.Enum {
			return nil
		}
		res := []metaObj{}
		for _, ev := range d.EnumValues {
			if dep, _ := deprecation(ev.Directives); dep && !includeDeprecated(args) {
				continue
			}
			res = append(res, &enumValueObj{v: ev})
		}
		return res
	case "inputFields":
		if d.Kind != ast.InputObject {
			return nil
		}
		res := []metaObj{}
		for _, f := range d.Fields {
			res = append(res, &inputValueObj{name: f.Name, desc: f.Description, typ: f.Type, def: f.DefaultValue})
		}
		return res
	case "ofType":
		return nil
	}
	return nil
}

// ---- __Field ----

type fieldObj struct{ f *ast.FieldDefinition }

func (o *fieldObj) typeName() string { return "__Field" }
func (o *fieldObj) field(r *Resolver, name string, args map[string]interface{}) interface{} {
	switch name {
	case "name":
		return o.f.Name
	case "description":
		return strOrNil(o.f.Description)
	case "args":
		res := []metaObj{}
		for _, a := range o.f.Arguments {
			res = append(res, &inputValueObj{name: a.Name, desc: a.Description, typ: a.Type, def: a.DefaultValue})
		}
		return res
	case "type":
		return &typeObj{t: o.f.Type}
	case "isDeprecated":
		dep, _ := deprecation(o.f.Directives)
		return dep
	case "deprecationReason":
		_, reason := deprecation(o.f.Directives)
		return reason
	}
	return nil
}

// ---- __InputValue ----

type inputValueObj struct {
	name, desc string
	typ        *ast.Type
	def        *ast.Value
}

func (o *inputValueObj) typeName() string { return "__InputValue" }
func (o *inputValueObj) field(r *Resolver, name string, args map[string]interface{}) interface{} {
	switch name {
	case "name":
		return o.name
	case "description":
		return strOrNil(o.desc)
	case "type":
		return &typeObj{t: o.typ}
	case "defaultValue":
		if o.def == nil {
			return nil
		}
		return o.def.String() // the GraphQL-encoded literal, as the spec prescribes
	}
	return nil
}

// ---- __EnumValue ----

type enumValueObj struct{ v *ast.EnumValueDefinition }

func (o *enumValueObj) typeName() string { return "__EnumValue" }
func (o *enumValueObj) field(r *Resolver, name string, args map[string]interface{}) interface{} {
	switch name {
	case "name":
		return o.v.Name
	case "description":
		return strOrNil(o.v.Description)
	case "isDeprecated":
		dep, _ := deprecation(o.v.Directives)
		return dep
	case "deprecationReason":
		_, reason := deprecation(o.v.Directives)
		return reason
	}
	return nil
}

// ---- __Directive ----

type directiveObj struct{ d *ast.DirectiveDefinition }

func (o *directiveObj) typeName() string { return "__Directive" }
func (o *directiveObj) field(r *Resolver, name string, args map[string]interface{}) interface{} {
	switch name {
	case "name":
		return o.d.Name
	case "description":
		return strOrNil(o.d.Description)
	case "locations":
		res := make([]interface{}, len(o.d.Locations))
		for i, l := range o.d.Locations {
			res[i] = string(l)
		}
		return res
	case "args":
		res := []metaObj{}
		for _, a := range o.d.Arguments {
			res = append(res, &inputValueObj{name: a.Name, desc: a.Description, typ: a.Type, def: a.DefaultValue})
		}
		return res
	case "isRepeatable":
		return o.d.IsRepeatable
	}
	return nil
}

// StandardQuery is the canonical full introspection query (graphql-js getIntrospectionQuery, 9 ofType levels).
const StandardQuery = `query IntrospectionQuery {
  __schema {
    description
    queryType { name }
    mutationType { name }
    subscriptionType { name }
    types { ...FullType }
    directives { name description isRepeatable locations args { ...InputValue } }
  }
}
fragment FullType on __Type {
  kind name description specifiedByURL
  fields(includeDeprecated: true) { name description args { ...InputValue } type { ...TypeRef } isDeprecated deprecationReason }
  inputFields { ...InputValue }
  interfaces { ...TypeRef }
  enumValues(includeDeprecated: true) { name description isDeprecated deprecationReason }
  possibleTypes { ...TypeRef }
}
fragment InputValue on __InputValue { name description type { ...TypeRef } defaultValue }
fragment TypeRef on __Type {
  kind name
  ofType { kind name ofType { kind name ofType { kind name ofType { kind name ofType { kind name ofType { kind name ofType { kind name ofType { kind name ofType { kind name } } } } } } } } }
}`

// ---- standard client: introspection answer -> SDL ----

func typeRefString(v interface{}) (string, error) {
	m, ok := v.(map[string]interface{})
	if !ok || m == nil {
		return "", fmt.Errorf("type reference is not an object")
	}
	kind, _ := m["kind"].(string)
	switch kind {
	case "NON_NULL":
		s, err := typeRefString(m["ofType"])
		return s + "!", err
	case "LIST":
		s, err := typeRefString(m["ofType"])
		return "[" + s + "]", err
	}
	name, _ := m["name"].(string)
	if name == "" {
		return "", fmt.Errorf("type reference without name (wrappers deeper than the query's ofType chain?)")
	}
	return name, nil
}

func descSDL(v interface{}, indent string) string {
	s, _ := v.(string)
	if s == "" {
		return ""
	}
	return indent + `"""` + "\n" + indent + strings.ReplaceAll(strings.ReplaceAll(s, `"""`, `\"""`), "\n", "\n"+indent) + "\n" + indent + `"""` + "\n"
}

func inputValuesSDL(list interface{}, sep, indent string, withDesc bool) (string, error) {
	l, _ := list.([]interface{})
	var parts []string
	for _, a := range l {
		am, ok := a.(map[string]interface{})
		if !ok {
			return "", fmt.Errorf("input value is not an object")
		}
		t, err := typeRefString(am["type"])
		if err != nil {
			return "", err
		}
		s := ""
		if withDesc {
			s += descSDL(am["description"], indent)
		}
		s += indent + fmt.Sprint(am["name"]) + ": " + t
		if dv, ok := am["defaultValue"].(string); ok {
			s += " = " + dv
		}
		parts = append(parts, s)
	}
	return strings.Join(parts, sep), nil
}

func deprecatedSDL(m map[string]interface{}) string {
	if b, _ := m["isDeprecated"].(bool); !b {
		return ""
	}
	if r, ok := m["deprecationReason"].(string); ok {
		return " @deprecated(reason: " + quote(r) + ")"
	}
	return " @deprecated(reason: null)"
}

func quote(s string) string {
	var b strings.Builder
	b.WriteByte('"')
	for _, r := range s {
		switch r {
		case '"':
			b.WriteString(`\"`)
		case '\\':
			b.WriteString(`\\`)
		case '\n':
			b.WriteString(`\n`)
		case '\r':
			b.WriteString(`\r`)
		case '\t':
			b.WriteString(`\t`)
		default:
			b.WriteRune(r)
		}
	}
	b.WriteByte('"')
	return b.String()
}

var builtinScalars = map[string]bool{"Int": true, "Float": true, "String": true, "Boolean": true, "ID": true}
var builtinDirectives = map[string]bool{"include": true, "skip": true, "deprecated": true, "specifiedBy": true}

// BuildSDL turns the `data` of the standard introspection query into SDL.
func BuildSDL(data map[string]interface{}) (string, error) {
	sch, ok := data["__schema"].(map[string]interface{})
	if !ok {
		return "", fmt.Errorf("no __schema in the answer")
	}
	var out strings.Builder
	rootName := func(k string) string {
		m, _ := sch[k].(map[string]interface{})
		if m == nil {
			return ""
		}
		n, _ := m["name"].(string)
		return n
	}
	q, mu, su := rootName("queryType"), rootName("mutationType"), rootName("subscriptionType")
	if q == "" {
		return "", fmt.Errorf("no query type")
	}
	if q != "Query" || (mu != "" && mu != "Mutation") || (su != "" && su != "Subscription") {
		out.WriteString("schema {\n  query: " + q + "\n")
		if mu != "" {
			out.WriteString("  mutation: " + mu + "\n")
		}
		if su != "" {
			out.WriteString("  subscription: " + su + "\n")
		}
		out.WriteString("}\n")
	}
	types, _ := sch["types"].([]interface{})
	for _, tv := range types {
		t, ok := tv.(map[string]interface{})
		if !ok {
			return "", fmt.Errorf("type entry is not an object")
		}
		name, _ := t["name"].(string)
		kind, _ := t["kind"].(string)
		if strings.HasPrefix(name, "__") || builtinScalars[name] {
			continue
		}
		out.WriteString(descSDL(t["description"], ""))
		implements := ""
		if ifs, _ := t["interfaces"].([]interface{}); len(ifs) > 0 {
			var names []string
			for _, i := range ifs {
				n, err := typeRefString(i)
				if err != nil {
					return "", err
				}
				names = append(names, n)
			}
			implements = " implements " + strings.Join(names, " & ")
		}
		switch kind {
		case "SCALAR":
			out.WriteString("scalar " + name)
			if u, ok := t["specifiedByURL"].(string); ok {
				out.WriteString(" @specifiedBy(url: " + quote(u) + ")")
			}
			out.WriteString("\n")
		case "OBJECT", "INTERFACE":
			kw := "type"
			if kind == "INTERFACE" {
				kw = "interface"
			}
			out.WriteString(kw + " " + name + implements + " {\n")
			fields, _ := t["fields"].([]interface{})
			for _, fv := range fields {
				f, ok := fv.(map[string]interface{})
				if !ok {
					return "", fmt.Errorf("field entry is not an object")
				}
				ft, err := typeRefString(f["type"])
				if err != nil {
					return "", err
				}
				out.WriteString(descSDL(f["description"], "  "))
				out.WriteString("  " + fmt.Sprint(f["name"]))
				if args, _ := f["args"].([]interface{}); len(args) > 0 {
					as, err := inputValuesSDL(args, "\n", "    ", true)
					if err != nil {
						return "", err
					}
					out.WriteString("(\n" + as + "\n  )")
				}
				out.WriteString(": " + ft + deprecatedSDL(f) + "\n")
			}
			out.WriteString("}\n")
		case "UNION":
			var names []string
			pts, _ := t["possibleTypes"].([]interface{})
			for _, p := range pts {
				n, err := typeRefString(p)
				if err != nil {
					return "", err
				}
				names = append(names, n)
			}
			out.WriteString("union " + name + " = " + strings.Join(names, " | ") + "\n")
		case "ENUM":
			out.WriteString("enum " + name + " {\n")
			evs, _ := t["enumValues"].([]interface{})
			for _, e := range evs {
				em, ok := e.(map[string]interface{})
				if !ok {
					return "", fmt.Errorf("enum value entry is not an object")
				}
				out.WriteString(descSDL(em["description"], "  "))
				out.WriteString("  " + fmt.Sprint(em["name"]) + deprecatedSDL(em) + "\n")
			}
			out.WriteString("}\n")
		case "INPUT_OBJECT":
			out.WriteString("input " + name + " {\n")
			s, err := inputValuesSDL(t["inputFields"], "\n", "  ", true)
			if err != nil {
				return "", err
			}
			out.WriteString(s + "\n}\n")
		default:
			return "", fmt.Errorf("type %s has unknown kind %q", name, kind)
		}
	}
	dirs, _ := sch["directives"].([]interface{})
	for _, dv := range dirs {
		d, ok := dv.(map[string]interface{})
		if !ok {
			return "", fmt.Errorf("directive entry is not an object")
		}
		name, _ := d["name"].(string)
		if builtinDirectives[name] {
			continue
		}
		out.WriteString(descSDL(d["description"], ""))
		out.WriteString("directive @" + name)
		if args, _ := d["args"].([]interface{}); len(args) > 0 {
			as, err := inputValuesSDL(args, ", ", "", false)
			if err != nil {
				return "", err
			}
			out.WriteString("(" + as + ")")
		}
		if rep, _ := d["isRepeatable"].(bool); rep {
			out.WriteString(" repeatable")
		}
		var locs []string
		ll, _ := d["locations"].([]interface{})
		for _, l := range ll {
			locs = append(locs, fmt.Sprint(l))
		}
		out.WriteString(" on " + strings.Join(locs, " | ") + "\n")
	}
	return out.String(), nil
}
