#!/bin/bash
# confirms every delivered seed under $WT/*.out/{a,b} (WT=/tmp/wt4 ROUND=seed4 by default) that has not been confirmed yet; results in /verif/.scratch/${ROUND:-seed4}/confirm.log
mkdir -p /verif/.scratch/${ROUND:-seed4}
for d in ${WT:-/tmp/wt4}/C*.out/a ${WT:-/tmp/wt4}/C*.out/b; do
  [ -f $d/patch.diff ] && [ -f $d/demo_cmd.txt ] && [ -f $d/demo_path.txt ] && [ -f $d/seed_demo_test.go.txt ] || continue
  grep -q "^CONFIRMED $d\$" /verif/.scratch/${ROUND:-seed4}/confirm.log 2>/dev/null && continue
  /verif/tools/confirm_seed3.sh $d >> /verif/.scratch/${ROUND:-seed4}/confirm.log 2>&1
done
grep -c "^CONFIRMED" /verif/.scratch/${ROUND:-seed4}/confirm.log; grep "^NOT-CONFIRMED" /verif/.scratch/${ROUND:-seed4}/confirm.log
