NOTE_COMMON = ("trusts gqlparser v2.5.1 (also used by pebbles), the harness's self-tested reference executor / fakes / codecs, "
               "the Go runtime and race detector; absence of violations is a statement about the explored cases only")

CHECKS = [
    {"property_id": "C20", "category": "exploration", "design_ref": "DESIGN.md §5 C20",
     "technique": "property-based testing (rapid) with harness-controlled completion order and hook-point perturbation; exhaustive small grid",
     "text": "rapid-generated (n, error pattern, worker completion order, callback/hook-point yields) executions of the real AsyncMapReduce checked against history invariants (map once, reduce once per success and never concurrently, complete at return, all errors returned, no goroutine left); the grid n<=4 x 2^n x n! sequential completion orders is enumerated exhaustively on every run; thorough adds the race detector",
     "level_note": NOTE_COMMON + "; schedule control limited to callbacks and the 9 verif hook points"},
]

_PENDING = ["C01","C02","C03","C04","C05","C06","C07","C08","C09","C10","C11","C12","C13","C14","C15","C16","C17","C18","C19"]
NOT_APPLICABLE = [{"property_id": p, "reason": "check not built yet (work in progress; the technique applies, see DESIGN.md §5)"} for p in _PENDING]

NOTES = "All checks are property-based tests / fuzz targets in /verif/harness (Go, rapid v1.3.0) run by /verif/check; see DESIGN.md."
