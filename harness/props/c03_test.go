package props

import (
	"fmt"
	"runtime/debug"
	"testing"

	"github.com/buildbuildio/pebbles/merger"
	"github.com/vektah/gqlparser/v2"
	"github.com/vektah/gqlparser/v2/ast"
	"pgregory.net/rapid"

	"verif/harness/ev"
	"verif/harness/opgen"
	"verif/harness/world"
)

// MergeCase: a world's service schemas merged in a given order with a given merger.
type MergeCase struct {
	World  *world.World `json:"world"`
	Order  []int        `json:"order"`
	Merger string       `json:"merger"`
	// Warmup: a merger run on the same inputs in the same order immediately before (its result is discarded): one process
	// can build several gateways over the same services, e.g. a public one hiding node and an internal one
	Warmup string `json:"warmup,omitempty"`
	// Ops: operations valid against one service (index, query) to be validated against the merged schema
	Ops []ServiceOp `json:"ops,omitempty"`
}

type ServiceOp struct {
	Service int    `json:"service"`
	Query   string `json:"query"`
}

func runMerge(w *world.World, order []int, mergerName string) (res *merger.MergeResult, err error, panicked string) {
	defer func() {
		if r := recover(); r != nil {
			panicked = fmt.Sprintf("%v\n%s", r, debug.Stack())
		}
	}()
	schemas, lerr := w.ServiceSchemas()
	if lerr != nil {
		return nil, fmt.Errorf("HARNESS: %v", lerr), ""
	}
	ins := make([]*merger.MergeInput, len(schemas))
	for i := range schemas {
		j := i
		if len(order) == len(schemas) {
			j = order[i]
		}
		ins[i] = &merger.MergeInput{Schema: schemas[j], URL: w.Services[j].URL}
	}
	if mergerName == "sanitize" {
		var m merger.SanitizeNodeMergerFunc
		res, err = m.Merge(ins)
	} else {
		var m merger.ExtendMergerFunc
		res, err = m.Merge(ins)
	}
	return
}

func checkC03(c *MergeCase) *ev.Failure {
	if c.Warmup != "" {
		runMerge(c.World, c.Order, c.Warmup)
	}
	res, err, pan := runMerge(c.World, c.Order, c.Merger)
	if pan != "" {
		return ev.Failf("panic", "Merge panicked on a mergeable world: %s", pan)
	}
	if err != nil {
		return ev.Failf("rejected", "Merge rejected a mergeable world: %v", err)
	}
	schemas, lerr := c.World.ServiceSchemas() // fresh copies: Merge may have touched its inputs
	if lerr != nil {
		return ev.Failf("harness", "%v", lerr)
	}
	sanitize := c.Merger == "sanitize"
	merged := schemaFacts(res.Schema, factOpts{})
	union := map[string]bool{}
	for i, s := range schemas {
		for f := range schemaFacts(s, factOpts{SkipNodeRoot: sanitize}) {
			union[f] = true
			if !merged[f] {
				return ev.Failf("missing:"+factKind(f), "service %d declares %q but the merged schema does not contain it", i, f)
			}
		}
	}
	for _, f := range sortedFacts(merged) {
		if !union[f] {
			return ev.Failf("invented:"+factKind(f), "merged schema contains %q which no service declares", f)
		}
	}
	// the merged schema is a valid schema: it survives print + load and is equal to itself afterwards
	re, rerr := gqlparser.LoadSchema(&ast.Source{Name: "reload", Input: formatSchema(res.Schema)})
	if rerr != nil {
		return ev.Failf("reload", "merged schema does not reload: %v", rerr)
	}
	ref := schemaFacts(re, factOpts{})
	for _, f := range sortedFacts(merged) {
		if !ref[f] {
			return ev.Failf("reload", "fact %q lost in reload", f)
		}
	}
	for _, f := range sortedFacts(ref) {
		if !merged[f] {
			return ev.Failf("reload", "fact %q appeared in reload", f)
		}
	}
	// operations valid against one service are valid against the merged schema
	for _, op := range c.Ops {
		if _, errs := gqlparser.LoadQuery(schemas[op.Service], op.Query); errs != nil {
			continue // not valid for the service: outside the claim
		}
		if _, errs := gqlparser.LoadQuery(res.Schema, op.Query); errs != nil {
			return ev.Failf("op-validity", "operation valid for service %d is rejected by the merged schema: %v\n%s", op.Service, errs, op.Query)
		}
	}
	return nil
}

func genOrder(t *rapid.T, n int) []int {
	return rapid.Permutation(seq(n)).Draw(t, "order")
}

func genMergeCase(t *rapid.T, withOps bool) (*MergeCase, *world.Model) {
	opt := world.DefaultOptions()
	opt.Subscriptions = true
	opt.NodeShapedRoot = true
	if ev.Thorough() {
		opt.MaxServices = 5
	}
	m := world.Generate(t, opt)
	w := m.Build()
	// shapes the merger accepts besides identical copies: a plain type split into disjoint field sets, enum extension
	if m.NServices >= 2 && rapid.IntRange(0, 2).Draw(t, "neutral") == 0 {
		sdls := make([]string, len(w.Services))
		for i, s := range w.Services {
			sdls[i] = s.SDL
		}
		a := rapid.IntRange(0, m.NServices-1).Draw(t, "na")
		b := rapid.IntRange(0, m.NServices-2).Draw(t, "nb")
		if b >= a {
			b++
		}
		kind := rapid.SampledFrom([]string{"neutralDisjoint", "neutralDisjoint", "neutralIdentical", "neutralEnumExtend", "neutralStubInterface", "neutralCopyWithInterface", "neutralUnderscoreRootFields"}).Draw(t, "nkind")
		applyEdit(kind, sdls, a, b, -1)
		for i := range w.Services {
			w.Services[i].SDL = sdls[i]
		}
		w.Labels = append(w.Labels, kind)
		m.Labels[kind] = true
		w.UnionSDL = "" // not needed by the merger checks
	}
	c := &MergeCase{World: w, Order: genOrder(t, m.NServices), Merger: "extend"}
	if rapid.IntRange(0, 3).Draw(t, "sanitize") == 0 {
		c.Merger = "sanitize"
	}
	if rapid.IntRange(0, 2).Draw(t, "warmup") == 0 {
		c.Warmup = rapid.SampledFrom([]string{"sanitize", "sanitize", "extend"}).Draw(t, "warmupMerger")
	}
	if withOps {
		schemas, err := w.ServiceSchemas()
		if err != nil {
			t.Fatalf("generator bug: %v", err)
		}
		n := rapid.IntRange(1, 3).Draw(t, "nops")
		for i := 0; i < n; i++ {
			si := rapid.IntRange(0, len(schemas)-1).Draw(t, "opsvc")
			o := opgen.DefaultOptions()
			o.NodeRoot = false // the node entry point is excluded from the claim under the node-hiding merger
			if rapid.IntRange(0, 4).Draw(t, "mut") == 0 {
				o.OpType = ast.Mutation
			}
			op := opgen.Generate(t, schemas[si], o)
			if op != nil {
				c.Ops = append(c.Ops, ServiceOp{Service: si, Query: op.Query})
			}
		}
	}
	return c, m
}

func mergeLabels(m *world.Model) (labels []string, sharedTypes int) {
	decl := map[string]int{}
	names := []string{}
	for _, o := range m.Objects {
		names = append(names, o.Name)
	}
	for _, x := range m.Ifaces {
		names = append(names, x.Name)
	}
	for _, x := range m.Unions {
		names = append(names, x.Name)
	}
	for _, n := range names {
		for s := 0; s < m.NServices; s++ {
			if m.Declares(s, n) {
				decl[n]++
			}
		}
	}
	three := false
	for _, c := range decl {
		if c >= 2 {
			sharedTypes++
		}
		if c >= 3 {
			three = true
		}
	}
	labels = append(labels, fmt.Sprintf("services=%d", m.NServices))
	if three {
		labels = append(labels, "typeIn>=3services")
	}
	if len(m.Ifaces) > 0 {
		labels = append(labels, "interface")
	}
	if len(m.Unions) > 0 {
		labels = append(labels, "union")
	}
	for _, o := range m.Objects {
		if !o.IsNode && len(o.Home) >= 2 {
			cnt := 0
			for s := 0; s < m.NServices; s++ {
				if m.Declares(s, o.Name) {
					cnt++
				}
			}
			if cnt >= 2 {
				labels = append(labels, "sharedValueType")
				break
			}
		}
	}
	for l := range m.Labels {
		labels = append(labels, l)
	}
	return
}

func TestC03(t *testing.T) {
	rec := ev.Get("C03")
	rec.Rule = "mergeable worlds (1..4 services, 5 in thorough; Node types split by field owner, shared value types, interfaces, unions, enums, inputs, custom scalars) x service order x merger (extend | node-hiding) x 1..3 operations generated valid against one service; non-trivial = >=2 services and >=1 type declared by >=2 services; distinct by hash(service SDLs, order, merger)"
	rapid.Check(t, func(t *rapid.T) {
		c, m := genMergeCase(t, true)
		labels, shared := mergeLabels(m)
		nt := m.NServices >= 2 && shared >= 1
		rec.Case(ev.Hash(c.World.Services, c.Order, c.Merger), nt, labels...)
		rec.Sample(nt, func() interface{} { return c })
		if f := checkC03(c); f != nil {
			ev.WriteFail("C03", c, f)
			t.Fatalf("%v", f)
		}
	})
}

func init() {
	replayers["C03"] = func(path string) (*ev.Failure, error) {
		var c MergeCase
		if _, _, err := ev.LoadCase(path, &c); err != nil {
			return nil, err
		}
		return checkC03(&c), nil
	}
}
