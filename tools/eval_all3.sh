#!/bin/bash
# recorded evaluation of the seeds of a round (WT=/tmp/wt4 ROUND=seed4 by default): each change is applied to /repo, the quick tier of its own property's check runs, /repo is reverted
mkdir -p /verif/.scratch/${ROUND:-seed4}
for d in ${WT:-/tmp/wt4}/C*.out/a ${WT:-/tmp/wt4}/C*.out/b; do
  [ -f $d/patch.diff ] || continue
  id=$(basename $(dirname $d) .out)
  echo "=== $d"
  /verif/tools/run_seed.sh $d/patch.diff $id "$@" 2>&1
done
