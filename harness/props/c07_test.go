package props

import (
	"bytes"
	"context"
	"encoding/base64"
	"encoding/json"
	"fmt"
	"mime"
	"mime/multipart"
	"net/textproto"
	"strconv"
	"strings"
	"testing"
	"time"

	"github.com/buildbuildio/pebbles"
	"github.com/vektah/gqlparser/v2"
	"github.com/vektah/gqlparser/v2/ast"
	"pgregory.net/rapid"

	"verif/harness/ev"
	"verif/harness/fake"
	"verif/harness/gwx"
	"verif/harness/opgen"
	"verif/harness/world"
)

// HTTPCase: one POST to the gateway endpoint.
type HTTPCase struct {
	World       *world.World `json:"world"`
	ContentType string       `json:"content_type"`
	BodyB64     string       `json:"body_b64"`
	BodyText    string       `json:"body_text,omitempty"` // informational (when printable)
	Kind        string       `json:"kind"`
	// CtxDone: the context of the client's request is already cancelled when the handler is called
	CtxDone bool `json:"ctx_done,omitempty"`
}

func (c *HTTPCase) Body() []byte {
	b, _ := base64.StdEncoding.DecodeString(c.BodyB64)
	return b
}

// ---- independent decodability predicate -------------------------------------------------

type verdict int

const (
	vUndecodable verdict = iota // must be 422
	vDecodable                  // must be 200
	vEither                     // the statement leaves it open
)

type decodedReq struct {
	Query         string
	Variables     map[string]interface{}
	OperationName *string
}

// decodeRequestObject judges one JSON value against the documented shape {query, variables, operationName}.
func decodeRequestObject(raw json.RawMessage) (verdict, *decodedReq) {
	var obj map[string]json.RawMessage
	trim := trimJSONSpace(raw)
	if len(trim) == 0 || trim[0] != '{' {
		return vUndecodable, nil
	}
	if err := json.Unmarshal(trim, &obj); err != nil {
		return vUndecodable, nil
	}
	res := &decodedReq{}
	v := vDecodable
	// encoding/json matches keys case-insensitively and lets the last duplicate win: such bodies are left open
	seen := map[string]int{}
	for k := range obj {
		lk := strings.ToLower(k)
		switch lk {
		case "query", "variables", "operationname":
			seen[lk]++
			if k != "query" && k != "variables" && k != "operationName" {
				v = vEither
			}
		}
	}
	for _, n := range seen {
		if n > 1 {
			v = vEither
		}
	}
	if hasDuplicateKeys(trim) {
		v = vEither
	}
	q, ok := obj["query"]
	if !ok {
		if v == vEither {
			return vEither, nil
		}
		return vUndecodable, nil
	}
	var qs *string
	if err := json.Unmarshal(q, &qs); err != nil {
		return vUndecodable, nil
	}
	if qs == nil || *qs == "" {
		// missing / empty query: documented as an error; either status is tolerated by the property text
		if v == vEither {
			return vEither, nil
		}
		return vUndecodable, nil
	}
	res.Query = *qs
	if vr, ok := obj["variables"]; ok {
		t := trimJSONSpace(vr)
		if !bytes.Equal(t, []byte("null")) {
			if len(t) == 0 || t[0] != '{' {
				return vUndecodable, nil
			}
			if err := json.Unmarshal(t, &res.Variables); err != nil {
				return vUndecodable, nil
			}
		}
	}
	if on, ok := obj["operationName"]; ok {
		if err := json.Unmarshal(on, &res.OperationName); err != nil {
			return vUndecodable, nil
		}
	}
	return v, res
}

func hasDuplicateKeys(obj []byte) bool {
	dec := json.NewDecoder(bytes.NewReader(obj))
	if tok, err := dec.Token(); err != nil || tok != json.Delim('{') {
		return false
	}
	seen := map[string]bool{}
	for dec.More() {
		tok, err := dec.Token()
		if err != nil {
			return false
		}
		k, _ := tok.(string)
		if seen[k] {
			return true
		}
		seen[k] = true
		var skip json.RawMessage
		if err := dec.Decode(&skip); err != nil {
			return false
		}
	}
	return false
}

// decodeBody judges a JSON body: single object or list of objects.
func decodeBody(body []byte) (verdict, []*decodedReq, bool) {
	trim := trimJSONSpace(body)
	// a byte order mark or other junk before the value is not JSON
	if len(trim) == 0 {
		return vUndecodable, nil, false
	}
	if !json.Valid(trim) {
		// the implementation decides batch mode by scanning for the first '[' or '{'; invalid JSON is undecodable either way
		return vUndecodable, nil, false
	}
	switch trim[0] {
	case '[':
		var elems []json.RawMessage
		if err := json.Unmarshal(trim, &elems); err != nil {
			return vUndecodable, nil, true
		}
		v := vDecodable
		var reqs []*decodedReq
		for _, e := range elems {
			ev, r := decodeRequestObject(e)
			if ev == vUndecodable {
				return vUndecodable, nil, true
			}
			if ev == vEither {
				v = vEither
			}
			reqs = append(reqs, r)
		}
		return v, reqs, true
	case '{':
		v, r := decodeRequestObject(trim)
		return v, []*decodedReq{r}, false
	default:
		// scalars / null are not requests; a string containing '[' before any '{' makes the implementation try batch mode - still undecodable
		return vUndecodable, nil, false
	}
}

// pathResolvesToNull checks a multipart map path against the decoded operations (spec: [idx.]variables.a.b.0 -> null slot).
// pathEndsAtObject: the path is well-formed but names an object instead of a null slot; the implementation
// accepts that silently (the file is attached nowhere). The statement does not say which status is due: left open.
func pathEndsAtObject(path string, reqs []*decodedReq, batch bool) bool {
	parts := strings.Split(path, ".")
	idx := 0
	if batch {
		n, err := strconv.Atoi(parts[0])
		if err != nil || n < 0 || n >= len(reqs) {
			return false
		}
		idx = n
		parts = parts[1:]
	}
	if len(reqs) == 0 || len(parts) < 2 || parts[0] != "variables" || reqs[idx] == nil {
		return false
	}
	var cur interface{} = map[string]interface{}(reqs[idx].Variables)
	for _, p := range parts[1:] {
		switch c := cur.(type) {
		case map[string]interface{}:
			v, ok := c[p]
			if !ok {
				return false
			}
			cur = v
		case []interface{}:
			n, err := strconv.Atoi(p)
			if err != nil || n < 0 || n >= len(c) {
				return false
			}
			cur = c[n]
		default:
			return false
		}
	}
	_, isObj := cur.(map[string]interface{})
	return isObj
}

func pathResolvesToNull(path string, reqs []*decodedReq, batch bool) bool {
	parts := strings.Split(path, ".")
	idx := 0
	if batch {
		n, err := strconv.Atoi(parts[0])
		if err != nil || n < 0 || n >= len(reqs) {
			return false
		}
		idx = n
		parts = parts[1:]
	}
	if len(reqs) == 0 || len(parts) < 2 || parts[0] != "variables" || reqs[idx] == nil {
		return false
	}
	var cur interface{} = map[string]interface{}(reqs[idx].Variables)
	for i, p := range parts[1:] {
		last := i == len(parts)-2
		switch c := cur.(type) {
		case map[string]interface{}:
			v, ok := c[p]
			if !ok {
				return false
			}
			if last {
				return v == nil
			}
			cur = v
		case []interface{}:
			n, err := strconv.Atoi(p)
			if err != nil || n < 0 || n >= len(c) {
				return false
			}
			if last {
				return c[n] == nil
			}
			cur = c[n]
		default:
			return false
		}
	}
	return false
}

// judge returns the expected status class and the decoded requests.
func judge(c *HTTPCase) (verdict, []*decodedReq, bool) {
	ct := strings.SplitN(c.ContentType, ";", 2)[0]
	body := c.Body()
	switch ct {
	case "application/json", "text/plain", "":
		return decodeBody(body)
	case "multipart/form-data":
		_, params, err := mime.ParseMediaType(c.ContentType)
		if err != nil || params["boundary"] == "" {
			return vUndecodable, nil, false
		}
		form, err := multipart.NewReader(bytes.NewReader(body), params["boundary"]).ReadForm(32 << 20)
		if err != nil {
			return vUndecodable, nil, false
		}
		ops := form.Value["operations"]
		if len(ops) == 0 {
			return vUndecodable, nil, false
		}
		v, reqs, batch := decodeBody([]byte(ops[0]))
		if v == vUndecodable {
			return vUndecodable, nil, batch
		}
		if v == vEither {
			return vEither, reqs, batch // the operations part is already outside the stated classes
		}
		if len(ops) > 1 {
			return vEither, reqs, batch
		}
		maps := form.Value["map"]
		if len(maps) == 0 {
			return vUndecodable, nil, batch
		}
		var fm map[string][]string
		if err := json.Unmarshal([]byte(maps[0]), &fm); err != nil {
			return vUndecodable, nil, batch
		}
		if len(fm) == 0 {
			return vEither, reqs, batch // a multipart request without files: left open
		}
		if hasDuplicateKeys(trimJSONSpace([]byte(maps[0]))) || len(maps) > 1 {
			v = vEither
		}
		used := map[string]int{}
		for key, paths := range fm {
			if len(form.File[key]) == 0 {
				return vUndecodable, nil, batch
			}
			for _, p := range paths {
				if !pathResolvesToNull(p, reqs, batch) {
					if pathEndsAtObject(p, reqs, batch) {
						v = vEither
						continue
					}
					return vUndecodable, nil, batch
				}
				used[p]++ // only a null slot can be claimed twice; a path that ends at an object is left open above
			}
		}
		for _, n := range used {
			if n > 1 {
				return vUndecodable, nil, batch // two files for one slot
			}
		}
		return v, reqs, batch
	default:
		return vUndecodable, nil, false
	}
}

// ---- oracle ---------------------------------------------------------------------------------

type gwCache struct {
	key string
	gw  *pebbles.Gateway
	net *fake.Net
	sch *ast.Schema
}

var c07cache gwCache

func gatewayFor(w *world.World) (*pebbles.Gateway, *ast.Schema, *ev.Failure) {
	key := fmt.Sprint(ev.Hash(w.Services))
	if c07cache.key == key && c07cache.gw != nil {
		return c07cache.gw, c07cache.sch, nil
	}
	net, err := fake.NewNet(w)
	if err != nil {
		return nil, nil, ev.Failf("harness", "%v", err)
	}
	gw, err := gwx.Build(w, net, gwx.Config{})
	if err != nil {
		return nil, nil, ev.Failf("harness", "world does not merge: %v", err)
	}
	res, merr, _ := runMerge(w, nil, "extend")
	if merr != nil {
		return nil, nil, ev.Failf("harness", "world does not merge: %v", merr)
	}
	c07cache = gwCache{key: key, gw: gw, net: net, sch: res.Schema}
	return gw, res.Schema, nil
}

func envelopeOK(v interface{}) string {
	m, ok := v.(map[string]interface{})
	if !ok {
		return "result is not an object"
	}
	_, hasData := m["data"]
	errs, hasErr := m["errors"]
	if !hasData && !hasErr {
		return "result has neither data nor errors"
	}
	if hasErr {
		l, ok := errs.([]interface{})
		if !ok {
			return "errors is not a list"
		}
		for _, e := range l {
			em, ok := e.(map[string]interface{})
			if !ok {
				return "error entry is not an object"
			}
			if _, ok := em["message"].(string); !ok {
				return "error entry without message"
			}
		}
	}
	if hasData {
		if d := m["data"]; d != nil {
			if _, ok := d.(map[string]interface{}); !ok {
				return "data is neither null nor an object"
			}
		}
	}
	return ""
}

func checkC07(c *HTTPCase) (*ev.Failure, string) {
	gw, schema, f := gatewayFor(c.World)
	if f != nil {
		return f, ""
	}
	want, reqs, batch := judge(c)
	ctx := context.Background()
	if c.CtxDone {
		cctx, cancel := context.WithCancel(ctx)
		cancel()
		ctx = cctx
	}
	resp := gwx.PostCtx(ctx, gw, c.Body(), c.ContentType, 10*time.Second)
	if resp.TimedOut {
		return ev.Failf("hang", "handler did not return within 10s"), ""
	}
	if resp.Panic != "" {
		return ev.Failf("panic:"+gwx.PanicSite(resp.Panic), "handler panicked: %s", trunc(resp.Panic, 1500)), ""
	}
	class := fmt.Sprintf("status=%d", resp.Status)
	switch want {
	case vUndecodable:
		if resp.Status != 422 {
			return ev.Failf("status", "request cannot be decoded (by the documented shape) but status is %d: %s", resp.Status, trunc(string(resp.Body), 300)), class
		}
	case vDecodable:
		if resp.Status != 200 {
			return ev.Failf("status", "request is decodable but status is %d: %s", resp.Status, trunc(string(resp.Body), 300)), class
		}
	default:
		if resp.Status != 200 && resp.Status != 422 {
			return ev.Failf("status", "status %d", resp.Status), class
		}
	}
	var parsed interface{}
	if err := json.Unmarshal(resp.Body, &parsed); err != nil {
		return ev.Failf("envelope", "response body is not JSON: %v: %s", err, trunc(string(resp.Body), 300)), class
	}
	if resp.Status == 422 {
		if msg := envelopeOK(parsed); msg != "" {
			return ev.Failf("envelope", "422 body: %s: %s", msg, trunc(string(resp.Body), 300)), class
		}
		m := parsed.(map[string]interface{})
		if l, _ := m["errors"].([]interface{}); len(l) == 0 {
			return ev.Failf("envelope", "422 without errors: %s", trunc(string(resp.Body), 300)), class
		}
	} else {
		var results []interface{}
		if want == vDecodable {
			if batch {
				l, ok := parsed.([]interface{})
				if !ok {
					return ev.Failf("envelope", "batch request answered with a non-array: %s", trunc(string(resp.Body), 300)), class
				}
				if len(l) != len(reqs) {
					return ev.Failf("envelope", "batch of %d answered with %d results", len(reqs), len(l)), class
				}
				results = l
			} else {
				results = []interface{}{parsed}
			}
		} else if l, ok := parsed.([]interface{}); ok {
			results = l
		} else {
			results = []interface{}{parsed}
		}
		for i, r := range results {
			if msg := envelopeOK(r); msg != "" {
				return ev.Failf("envelope", "result %d: %s: %s", i, msg, trunc(string(resp.Body), 300)), class
			}
			if want == vDecodable && i < len(reqs) && reqs[i] != nil {
				// invalid against the gateway's schema => errors and data:null
				doc, verrs := gqlparser.LoadQuery(schema, reqs[i].Query)
				m := r.(map[string]interface{})
				if verrs == nil {
					// a valid document from which no operation can be selected is a request error as well
					// (an empty-string operationName is left open)
					unselectable := ""
					if on := reqs[i].OperationName; on != nil && *on != "" && doc.Operations.ForName(*on) == nil {
						unselectable = "operationName " + *on + " names no operation of the document"
					} else if on == nil && len(doc.Operations) != 1 {
						unselectable = fmt.Sprintf("no operationName and %d operations in the document", len(doc.Operations))
					}
					if unselectable != "" {
						class += ",unselectable-op"
						if l, _ := m["errors"].([]interface{}); len(l) == 0 {
							return ev.Failf("invalid-not-null:operation-selection", "%s, but the request is answered without errors: %s", unselectable, trunc(string(resp.Body), 300)), class
						}
						if d, has := m["data"]; !has || d != nil {
							return ev.Failf("invalid-not-null:operation-selection", "%s, but the request is answered with data %v (want data: null)", unselectable, d), class
						}
						continue
					}
				}
				if verrs != nil {
					class += ",invalid-op"
					if l, _ := m["errors"].([]interface{}); len(l) == 0 {
						return ev.Failf("invalid-not-null", "operation invalid against the gateway schema (%v) answered without errors: %s", verrs[0].Message, trunc(string(resp.Body), 300)), class
					}
					if d, has := m["data"]; !has || d != nil {
						return ev.Failf("invalid-not-null", "operation invalid against the gateway schema answered with data %v (want data: null)", d), class
					}
				} else {
					class += ",valid-op"
				}
			}
		}
	}
	// the gateway still serves
	probe := gwx.Post(gw, []byte(`{"query":"{ __schema { queryType { name } } }"}`), "application/json", 10*time.Second)
	if probe.TimedOut || probe.Panic != "" || probe.Status != 200 || !strings.Contains(string(probe.Body), `"name":"Query"`) {
		return ev.Failf("probe", "probe request after the case failed: status %d panic %q body %s", probe.Status, trunc(probe.Panic, 200), trunc(string(probe.Body), 200)), class
	}
	return nil, class
}

// ---- generators ------------------------------------------------------------------------------

func c07World(t *rapid.T) *world.World {
	opt := world.DefaultOptions()
	opt.MaxServices = 3
	opt.EmptyAbstract = true
	opt.IdOnlyNode = true
	m := world.Generate(t, opt)
	w := m.Build()
	w.Store = world.GenerateStore(t, m, world.DefaultStoreOptions())
	return w
}

var hostileBodies = []string{
	`[null]`, `[1]`, `null`, `[]`, `[[]]`, `{}`, `[{}]`, `""`, `0`, `true`, `[{"query":"{a}"},null]`, `{"query":null}`, `{"query":""}`,
	"\f[]", "\v{\"query\":\"{ __typename }\"}", "\u00a0[]", `{"query":5}`, `{"query":"{a}","variables":[]}`, `{"query":"{a}","variables":"x"}`, `{"query":"{a}","operationName":{}}`,
	`{"query":"{a}","operationName":5}`, "\xef\xbb\xbf" + `{"query":"{a}"}`, `{"query":"{a}"} trailing`, `{"query":"{a}"}{"query":"{b}"}`,
	`[{"query":"{a}"}`, `{"query":"{a}","query":"{b}"}`, `{"Query":"{a}"}`, `{"QUERY":"{ __typename }"}`, `"[" {"query":"{a}"}`,
	`{"query":"{ __typename }"}`, `{"query":"query { __typename }"}`, `{"query":"{ __schema { types { name } } __typename }"}`,
	`{"query":"{ __type(name: \"Query\") { name } }"}`, `{"query":"{ __type(name: $n) { name } }"}`, `{"query":"query($n: String!) { __type(name: $n) { name } }","variables":{}}`,
	`{"query":"{ __type { name } }"}`, `{"query":"{"}`, `{"query":"}"}`, `{"query":"query"}`, `{"query":"fragment F on Query { __typename }"}`,
	`{"query":"query A { __typename } query B { __typename }"}`, `{"query":"query A { __typename }","operationName":"B"}`,
	`{"query":"subscription { __typename }"}`, `{"query":"mutation { __typename }"}`, `{"query":"{ node(id: \"x\") { id } }"}`,
	`{"query":"{ node(id: \"x\") { __typename } }"}`, `{"query":"{ node(id: 5) { id } }"}`, `{"query":"{ node { id } }"}`,
	strings.Repeat("[", 2000), strings.Repeat(`{"a":`, 500), `{"query":"` + strings.Repeat("{a", 300) + `"}`, `{"query":"{a}","variables":{"x":1e999}}`,
	`{"query":"{a}","variables":null,"operationName":null}`,
}

func genJSONShape(t *rapid.T, validOps []string) []byte {
	var mkReq func() interface{}
	mkReq = func() interface{} {
		switch rapid.IntRange(0, 9).Draw(t, "reqshape") {
		case 0:
			return nil
		case 1:
			return rapid.SampledFrom([]interface{}{1, "x", true, []interface{}{}, map[string]interface{}{}}).Draw(t, "scalar")
		default:
			m := map[string]interface{}{}
			switch rapid.IntRange(0, 7).Draw(t, "q") {
			case 0:
				m["query"] = 5
			case 1:
				m["query"] = nil
			case 2:
				m["query"] = ""
			case 3:
				// absent
			case 4:
				m["query"] = rapid.SampledFrom([]string{"{", "{ a }", "query", "{ __typename }", " ", "\n", "{ unknownField }", "query Q($a: Nope) { __typename }"}).Draw(t, "badq")
			default:
				m["query"] = rapid.SampledFrom(validOps).Draw(t, "okq")
			}
			switch rapid.IntRange(0, 6).Draw(t, "v") {
			case 0:
				m["variables"] = []interface{}{}
			case 1:
				m["variables"] = "str"
			case 2:
				m["variables"] = nil
			case 3:
				m["variables"] = map[string]interface{}{"a": 1, "b": nil, "c": []interface{}{nil}}
			case 4:
				m["variables"] = 7
			}
			switch rapid.IntRange(0, 6).Draw(t, "on") {
			case 0:
				m["operationName"] = 5
			case 1:
				m["operationName"] = nil
			case 2:
				m["operationName"] = "Nope"
			case 3:
				m["operationName"] = map[string]interface{}{}
			case 4:
				m["operationName"] = ""
			}
			if rapid.IntRange(0, 9).Draw(t, "extra") == 0 {
				m["extensions"] = map[string]interface{}{"x": 1}
			}
			return m
		}
	}
	var top interface{}
	if rapid.IntRange(0, 2).Draw(t, "batch") == 0 {
		n := rapid.IntRange(0, 4).Draw(t, "n")
		l := make([]interface{}, n)
		for i := range l {
			l[i] = mkReq()
		}
		top = l
	} else {
		top = mkReq()
	}
	b, _ := json.Marshal(top)
	switch rapid.IntRange(0, 11).Draw(t, "tweak") {
	case 0:
		b = append([]byte("  \n\t"), b...)
	case 1:
		b = append([]byte("\xef\xbb\xbf"), b...)
	case 2:
		b = append(b, []byte(" x")...)
	case 3:
		if len(b) > 2 {
			b = b[:len(b)-1]
		}
	}
	return b
}

func mutateBytes(t *rapid.T, b []byte) []byte {
	b = append([]byte{}, b...)
	n := rapid.IntRange(1, 4).Draw(t, "nmut")
	for i := 0; i < n && len(b) > 0; i++ {
		pos := rapid.IntRange(0, len(b)-1).Draw(t, "pos")
		switch rapid.IntRange(0, 4).Draw(t, "mutkind") {
		case 0:
			b[pos] = rapid.Byte().Draw(t, "byte")
		case 1:
			b = append(b[:pos], b[pos+1:]...)
		case 2:
			ins := rapid.SampledFrom([]string{"[", "]", "{", "}", "null", ",", "\"", ":", "0", "\\", "\x00"}).Draw(t, "ins")
			b = append(b[:pos], append([]byte(ins), b[pos:]...)...)
		case 3:
			b = b[:pos]
		case 4:
			end := rapid.IntRange(pos, len(b)).Draw(t, "end")
			b = append(b[:pos], append(append([]byte{}, b[pos:end]...), b[pos:]...)...)
		}
	}
	return b
}

type mpFile struct {
	Key, Name string
	Data      []byte
	// ContentType of the part; empty = application/octet-stream
	ContentType string
}

func buildMultipart(fields [][2]string, files []mpFile) ([]byte, string) {
	var buf bytes.Buffer
	w := multipart.NewWriter(&buf)
	_ = w.SetBoundary("verifboundary7MA4YWxkTrZu0gW")
	for _, f := range fields {
		fw, _ := w.CreateFormField(f[0])
		fw.Write([]byte(f[1]))
	}
	for _, f := range files {
		h := make(textproto.MIMEHeader)
		h.Set("Content-Disposition", fmt.Sprintf(`form-data; name=%q; filename=%q`, f.Key, f.Name))
		ct := f.ContentType
		if ct == "" {
			ct = "application/octet-stream"
		}
		h.Set("Content-Type", ct)
		fw, _ := w.CreatePart(h)
		fw.Write(f.Data)
	}
	w.Close()
	return buf.Bytes(), w.FormDataContentType()
}

func genMultipart(t *rapid.T, validOps []string) ([]byte, string) {
	batch := rapid.IntRange(0, 2).Draw(t, "mpbatch") == 0
	mkOp := func() map[string]interface{} {
		vars := map[string]interface{}{}
		switch rapid.IntRange(0, 4).Draw(t, "mpvars") {
		case 0:
			vars["file"] = nil
		case 1:
			vars["files"] = []interface{}{nil, nil}
		case 2:
			vars["input"] = map[string]interface{}{"file": nil, "list": []interface{}{nil}, "name": "x"}
		case 3:
			vars["file"] = "not-null"
		}
		m := map[string]interface{}{"query": rapid.SampledFrom(validOps).Draw(t, "mpq"), "variables": vars}
		if rapid.IntRange(0, 9).Draw(t, "novars") == 0 {
			delete(m, "variables")
		}
		return m
	}
	var ops interface{}
	nops := 1
	if batch {
		nops = rapid.IntRange(0, 3).Draw(t, "mpn")
		l := make([]interface{}, nops)
		for i := range l {
			l[i] = mkOp()
		}
		ops = l
	} else {
		ops = mkOp()
	}
	opsJSON, _ := json.Marshal(ops)
	paths := []string{"variables.file", "variables.files.0", "variables.files.1", "variables.files.2", "variables.files.-1", "variables.files.x",
		"variables.input.file", "variables.input.list.0", "variables.input.name", "variables.input.name.x", "variables.missing", "variables",
		"file", "", "variables.", ".variables.file", "variables.files", "variables.input", "0", "variables.file.deeper", "variables.files.0.x"}
	fm := map[string][]string{}
	nfiles := rapid.IntRange(0, 3).Draw(t, "mpfiles")
	var files []mpFile
	for i := 0; i < nfiles; i++ {
		key := strconv.Itoa(i)
		np := rapid.IntRange(0, 2).Draw(t, "npaths")
		ps := []string{}
		for j := 0; j < np; j++ {
			p := rapid.SampledFrom(paths).Draw(t, "path")
			if batch {
				switch rapid.IntRange(0, 7).Draw(t, "idxkind") {
				case 0:
					p = "9." + p
				case 1:
					p = "-1." + p
				case 2:
					p = "x." + p
				case 3:
					// no index at all
				case 4:
					// nothing but an index
					p = strconv.Itoa(rapid.IntRange(0, maxInt(nops, 1)).Draw(t, "bareidx"))
				default:
					p = strconv.Itoa(rapid.IntRange(0, maxInt(nops-1, 0)).Draw(t, "idx")) + "." + p
				}
			}
			ps = append(ps, p)
		}
		fm[key] = ps
		if rapid.IntRange(0, 7).Draw(t, "filemissing") != 0 {
			files = append(files, mpFile{Key: key, Name: rapid.SampledFrom([]string{"a.txt", "ü.bin", `q"uote.txt`, ""}).Draw(t, "fname"), Data: []byte(rapid.SampledFrom([]string{"", "hello", "\x00\x01\x02"}).Draw(t, "fdata"))})
		}
	}
	mapJSON, _ := json.Marshal(fm)
	fields := [][2]string{}
	switch rapid.IntRange(0, 11).Draw(t, "mplayout") {
	case 0:
		fields = append(fields, [2]string{"map", string(mapJSON)}) // operations missing
	case 1:
		fields = append(fields, [2]string{"operations", string(opsJSON)}) // map missing
	case 2:
		fields = append(fields, [2]string{"operations", "{not json"}, [2]string{"map", string(mapJSON)})
	case 3:
		fields = append(fields, [2]string{"operations", string(opsJSON)}, [2]string{"map", `["a"]`})
	case 4:
		fields = append(fields, [2]string{"operations", string(opsJSON)}, [2]string{"map", `{"0": "variables.file"}`})
	case 5:
		fields = append(fields, [2]string{"map", string(mapJSON)}, [2]string{"operations", string(opsJSON)}) // order swapped
	default:
		fields = append(fields, [2]string{"operations", string(opsJSON)}, [2]string{"map", string(mapJSON)})
	}
	body, ct := buildMultipart(fields, files)
	if rapid.IntRange(0, 14).Draw(t, "mpbreak") == 0 {
		body = mutateBytes(t, body)
	}
	return body, ct
}

func mkHTTPCase(w *world.World, kind, ct string, body []byte) *HTTPCase {
	c := &HTTPCase{World: w, ContentType: ct, BodyB64: base64.StdEncoding.EncodeToString(body), Kind: kind}
	if len(body) < 600 {
		c.BodyText = string(bytes.ToValidUTF8(body, []byte("?")))
	}
	return c
}

func genOpsFor(t *rapid.T, w *world.World, n int) []string {
	union, err := w.UnionSchema()
	if err != nil {
		t.Fatalf("generator bug: %v", err)
	}
	var ops []string
	for i := 0; i < n; i++ {
		o := opgen.DefaultOptions()
		o.RootTypename = true
		o.IDs = entityIDs(w.Store)
		if rapid.IntRange(0, 4).Draw(t, "mut") == 0 && union.Mutation != nil {
			o.OpType = ast.Mutation
		}
		applyGates(&o)
		if op := opgen.Generate(t, union, o); op != nil {
			ops = append(ops, op.Query)
		}
	}
	if len(ops) == 0 {
		ops = []string{"{ __typename }"}
	}
	return ops
}

func genHTTPCase(t *rapid.T) *HTTPCase {
	w := c07World(t)
	ops := genOpsFor(t, w, 2)
	cts := []string{"application/json", "application/json; charset=utf-8", "text/plain", "", "application/xml", "application/graphql", "multipart/form-data", "APPLICATION/JSON", ";", "application/json;"}
	switch rapid.IntRange(0, 9).Draw(t, "kind") {
	case 0: // raw bytes
		body := rapid.SliceOfN(rapid.Byte(), 0, 64).Draw(t, "raw")
		return mkHTTPCase(w, "raw", rapid.SampledFrom(cts).Draw(t, "ct"), body)
	case 1: // hostile constants
		return mkHTTPCase(w, "hostile", rapid.SampledFrom(cts[:4]).Draw(t, "ct"), []byte(rapid.SampledFrom(hostileBodies).Draw(t, "hostile")))
	case 2: // mutated valid body
		b, _ := json.Marshal(map[string]interface{}{"query": ops[0], "variables": map[string]interface{}{"a": 1}})
		return mkHTTPCase(w, "mutated", rapid.SampledFrom(cts[:4]).Draw(t, "ct"), mutateBytes(t, b))
	case 3, 4: // JSON shapes
		return mkHTTPCase(w, "jsonshape", rapid.SampledFrom(cts[:5]).Draw(t, "ct"), genJSONShape(t, ops))
	case 5, 6: // multipart layouts
		body, ct := genMultipart(t, ops)
		return mkHTTPCase(w, "multipart", ct, body)
	default: // syntactically valid operations, valid or not against the schema
		q := ops[0]
		switch rapid.IntRange(0, 5).Draw(t, "opkind") {
		case 0:
			q = strings.Replace(q, "{", "{ nopeField ", 1)
		case 1:
			q = rapid.SampledFrom([]string{"{ __typename }", "query { __typename __typename }", "{ __schema { queryType { name } } }",
				"mutation { __typename }", "{ ...F } fragment F on Query { __typename }",
				// documents without any operation
				"# nothing", " ", "\n\t", ",,,", "fragment F on Query { __typename }", "# a\n# b\n", "{ __schema { types { name } } " + strings.TrimPrefix(strings.TrimSpace(ops[0]), "{")}).Draw(t, "special")
		case 2:
			q = string(mutateBytes(t, []byte(q)))
		}
		req := map[string]interface{}{"query": q}
		if rapid.IntRange(0, 7).Draw(t, "introvars") == 0 {
			// introspection arguments given as variables whose JSON values need not have the declared type
			// (the gateway does not coerce variable values)
			req["query"] = rapid.SampledFrom([]string{
				"query($d: Boolean) { __type(name: \"Query\") { fields(includeDeprecated: $d) { name } } }",
				"query($d: Boolean = true, $n: String!) { __type(name: $n) { name enumValues(includeDeprecated: $d) { name } fields(includeDeprecated: $d) { name } } }",
				"query($n: String) { __type(name: $n) { kind } __schema { types { fields(includeDeprecated: true) { name } } } }",
			}).Draw(t, "introq")
			odd := []interface{}{"true", 1, 0.5, nil, []interface{}{}, map[string]interface{}{}, true, "Query", []interface{}{true}}
			req["variables"] = map[string]interface{}{"d": rapid.SampledFrom(odd).Draw(t, "vd"), "n": rapid.SampledFrom(odd).Draw(t, "vn")}
		}
		switch rapid.IntRange(0, 9).Draw(t, "opname") {
		case 0:
			req["operationName"] = "NoSuchOperation"
		case 1:
			req["operationName"] = ""
		case 2:
			req["operationName"] = nil
		}
		if rapid.IntRange(0, 3).Draw(t, "asbatch") == 0 {
			elems := []interface{}{req, map[string]interface{}{"query": ops[len(ops)-1]}}
			if rapid.Bool().Draw(t, "withintro") {
				elems = append(elems, map[string]interface{}{"query": rapid.SampledFrom(introspectionOps).Draw(t, "introop")})
			}
			if rapid.IntRange(0, 5).Draw(t, "bigbatch") == 0 {
				// more operations than any fan-out limit one would think of
				n := rapid.SampledFrom([]int{16, 17, 33, 65, 130, 257, 300}).Draw(t, "nbig")
				for len(elems) < n {
					elems = append(elems, map[string]interface{}{"query": rapid.SampledFrom([]string{"{ __typename }", ops[len(ops)-1], "{ nope }"}).Draw(t, "bigop")})
				}
			}
			order := rapid.Permutation(seq(len(elems))).Draw(t, "batchorder")
			shuffled := make([]interface{}, len(elems))
			for i, j := range order {
				shuffled[i] = elems[j]
			}
			b, _ := json.Marshal(shuffled)
			return mkHTTPCase(w, "operation", "application/json", b)
		}
		b, _ := json.Marshal(req)
		return mkHTTPCase(w, "operation", "application/json", b)
	}
}

func c07Features(c *HTTPCase) []string {
	var fs []string
	_, reqs, _ := judge(c)
	union, err := c.World.UnionSchema()
	if err != nil {
		return nil
	}
	for _, r := range reqs {
		if r == nil {
			continue
		}
		doc, errs := gqlparser.LoadQuery(union, r.Query)
		if errs != nil {
			continue
		}
		for _, op := range doc.Operations {
			ec := &ExecCase{World: c.World, Op: opgen.Op{Query: r.Query, Variables: r.Variables}}
			if op.Name != "" {
				n := op.Name
				ec.Op.OperationName = &n
			}
			fs = append(fs, caseFeatures(ec).List()...)
		}
	}
	return fs
}

func TestC07(t *testing.T) {
	rec := ev.Get("C07")
	rec.Rule = "POST bodies x content types against gateways over generated worlds (incl. abstract types without members): raw bytes, hostile constants, byte-mutated valid bodies, JSON shapes (null, arrays with non-objects, wrong member types, duplicate/odd-case keys), multipart layouts (missing/garbled operations or map, out-of-range/negative/malformed paths, missing files), syntactically valid operations (valid, invalid, root __typename, introspection mixes), batches of 16..300 operations; in a twentieth of the cases the context of the client's request is already cancelled. Oracle: returns, no panic, status 422 iff undecodable by an independent reading of the documented shape (open cases accept either), JSON envelope, invalid => errors + data:null, probe request served afterwards. non-trivial = not a verbatim hostile constant; distinct by hash(content type, body, schema)"
	defer census.dump("C07")
	rapid.Check(t, func(t *rapid.T) {
		c := genHTTPCase(t)
		c.CtxDone = rapid.IntRange(0, 19).Draw(t, "ctxdone") == 0 // the client has given up already
		for _, f := range c07Features(c) {
			if gateClosed(f) {
				rec.Exclude(f)
				return
			}
		}
		if g := c07BodyGate(c); g != "" && gateClosed(g) {
			rec.Exclude(g)
			return
		}
		ev.Current("C07", c)
		f, class := checkC07(c)
		nt := c.Kind != "hostile"
		rec.Case(ev.Hash(c.ContentType, c.BodyB64, c.World.Services), nt, "kind="+c.Kind, class)
		rec.Sample(nt, func() interface{} {
			return map[string]interface{}{"kind": c.Kind, "content_type": c.ContentType, "body": trunc(c.BodyText, 300), "class": class}
		})
		if f != nil {
			if isCensus() {
				census.add(f.Signature, c.ContentType+" | "+trunc(c.BodyText, 200)+"  ## "+trunc(f.Message, 300))
				return
			}
			if only := onlySig(); only != "" && !strings.HasPrefix(f.Signature, only) {
				return
			}
			ev.WriteFail("C07", c, f)
			t.Fatalf("%v", f)
		}
	})
}

// c07BodyGate names body-level feature classes used by gates of open findings.
func c07BodyGate(c *HTTPCase) string {
	return ""
}

func init() {
	replayers["C07"] = func(path string) (*ev.Failure, error) {
		var c HTTPCase
		if _, _, err := ev.LoadCase(path, &c); err != nil {
			return nil, err
		}
		f, _ := checkC07(&c)
		return f, nil
	}
}

// trimJSONSpace removes JSON whitespace (space, tab, CR, LF) - not the wider Unicode set of bytes.TrimSpace: a form feed
// or vertical tab before the value makes the body invalid JSON.
func trimJSONSpace(b []byte) []byte {
	return bytes.Trim(b, " \t\r\n")
}
