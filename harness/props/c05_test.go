package props

import (
	"fmt"
	"sort"
	"strings"
	"testing"

	"github.com/vektah/gqlparser/v2/ast"
	"pgregory.net/rapid"

	"verif/harness/ev"
	"verif/harness/world"
)

// ConflictCase: a mergeable world whose service SDLs were edited; Conflicts lists the conflict-introducing edits
// (empty = still mergeable, only order-invariance is checked).
type ConflictCase struct {
	World     *world.World `json:"world"`
	Merger    string       `json:"merger"`
	Conflicts []string     `json:"conflicts"`
	Neutral   []string     `json:"neutral,omitempty"`
	// Perms: service orders to try (all permutations for <=4 services)
	Perms [][]int `json:"perms"`
}

const nodeIface = "interface Node {\n  id: ID!\n}\n"

func ensureNode(sdl string) string {
	if strings.Contains(sdl, "interface Node {") {
		return sdl
	}
	return sdl + nodeIface
}

func addRootField(sdl, root, field string) string {
	head := "type " + root + " {\n"
	if strings.Contains(sdl, head) {
		return strings.Replace(sdl, head, head+"  "+field+"\n", 1)
	}
	return sdl + head + "  " + field + "\n}\n"
}

// applyEdit mutates the SDLs of services a and b (and c for three-service edits).
func applyEdit(kind string, sdls []string, a, b, c int) {
	switch kind {
	case "dupQueryField":
		sdls[a] = addRootField(sdls[a], "Query", "clashField: String")
		sdls[b] = addRootField(sdls[b], "Query", "clashField: String")
	case "dupMutationField":
		sdls[a] = addRootField(sdls[a], "Mutation", "clashMut(x: Int): Boolean")
		sdls[b] = addRootField(sdls[b], "Mutation", "clashMut(x: Int): Boolean")
	case "dupSubscriptionField":
		sdls[a] = addRootField(sdls[a], "Subscription", "clashSub: Int")
		sdls[b] = addRootField(sdls[b], "Subscription", "clashSub: Int")
	// names with one leading underscore are ordinary names: the same conflicts apply to them
	case "dupUnderscoreQueryField":
		sdls[a] = addRootField(sdls[a], "Query", "_stats: Int")
		sdls[b] = addRootField(sdls[b], "Query", "_stats: Int")
	case "kindUnderscoreObjectEnum":
		sdls[a] += "type _Meta {\n  a: String\n}\n"
		sdls[b] += "enum _Meta {\n  A\n  B\n}\n"
	case "partialUnderscoreObject":
		sdls[a] += "type _Page {\n  a: String\n  b: String\n}\n"
		sdls[b] += "type _Page {\n  a: String\n  c: String\n}\n"
	case "kindObjectEnum":
		sdls[a] += "type Clash {\n  a: String\n}\n"
		sdls[b] += "enum Clash {\n  A\n  B\n}\n"
	case "kindScalarObject":
		sdls[a] += "scalar Clash2\n"
		sdls[b] += "type Clash2 {\n  a: String\n}\n"
	case "kindInputObject":
		sdls[a] += "input Clash3 {\n  a: String\n}\n"
		sdls[b] += "type Clash3 {\n  a: String\n}\n"
	case "kindInterfaceUnion":
		sdls[a] += "interface Clash4 {\n  a: String\n}\n"
		sdls[b] += "type Clash4M {\n  a: String\n}\nunion Clash4 = Clash4M\n"
	case "nodeOneSide":
		sdls[a] = ensureNode(sdls[a]) + "type Half implements Node {\n  id: ID!\n}\n"
		sdls[b] += "type Half {\n  id: ID!\n}\n"
	case "nodeFieldTwice":
		sdls[a] = ensureNode(sdls[a]) + "type Twice implements Node {\n  id: ID!\n  x: String\n}\n"
		sdls[b] = ensureNode(sdls[b]) + "type Twice implements Node {\n  id: ID!\n  x: String\n}\n"
	case "nodeFieldTwicePartial":
		sdls[a] = ensureNode(sdls[a]) + "type Twice2 implements Node {\n  id: ID!\n  x: String\n  y: Int\n}\n"
		sdls[b] = ensureNode(sdls[b]) + "type Twice2 implements Node {\n  id: ID!\n  x: String\n  z: Int\n}\n"
	case "partialObject":
		sdls[a] += "type Part {\n  a: String\n  b: String\n}\n"
		sdls[b] += "type Part {\n  a: String\n  c: String\n}\n"
	case "partialObjectSubset":
		sdls[a] += "type PartS {\n  a: String\n  b: String\n}\n"
		sdls[b] += "type PartS {\n  a: String\n}\n"
	case "partialInput":
		sdls[a] += "input PartIn {\n  a: String\n  b: String\n}\n"
		sdls[b] += "input PartIn {\n  a: String\n  c: String\n}\n"
	case "partialInputSubset":
		sdls[a] += "input PartInS {\n  a: String\n  b: Int\n}\n"
		sdls[b] += "input PartInS {\n  a: String\n}\n"
	case "partialInterface":
		sdls[a] += "interface PartIf {\n  a: String\n  b: String\n}\n"
		sdls[b] += "interface PartIf {\n  a: String\n  c: String\n}\n"
	case "partialInterfaceSubset":
		sdls[a] += "interface PartIfS {\n  a: String\n  b: String\n}\n"
		sdls[b] += "interface PartIfS {\n  a: String\n}\n"
	case "idFieldType":
		// a field called id is nothing special on a type that does not implement Node
		sdls[a] += "type Money {\n  id: Int!\n  amount: Int\n}\n"
		sdls[b] += "type Money {\n  id: String!\n  amount: Int\n}\n"
	case "idInputFieldType":
		sdls[a] += "input MoneyFilter {\n  id: Int\n}\n"
		sdls[b] += "input MoneyFilter {\n  id: [ID!]\n}\n"
	case "idFieldArgs":
		sdls[a] += "type Wallet {\n  id(format: String): ID!\n  n: Int\n}\n"
		sdls[b] += "type Wallet {\n  id: ID!\n  n: Int\n}\n"
	case "fieldType":
		sdls[a] += "type Sig {\n  a: String\n}\n"
		sdls[b] += "type Sig {\n  a: Int\n}\n"
	case "fieldNullability":
		sdls[a] += "type SigN {\n  a: String!\n  b: Int\n}\n"
		sdls[b] += "type SigN {\n  a: String\n  b: Int\n}\n"
	case "fieldListWrapper":
		sdls[a] += "type SigL {\n  a: [String]\n  b: Int\n}\n"
		sdls[b] += "type SigL {\n  a: String\n  b: Int\n}\n"
	case "fieldListElemNullability":
		sdls[a] += "type SigM {\n  a: [String!]\n}\n"
		sdls[b] += "type SigM {\n  a: [String]\n}\n"
	case "argListWrapper":
		sdls[a] += "type SigO {\n  a(x: [ID!]): String\n}\n"
		sdls[b] += "type SigO {\n  a(x: ID): String\n}\n"
	case "inputFieldListWrapper":
		sdls[a] += "input SigP {\n  a: [Int]!\n}\n"
		sdls[b] += "input SigP {\n  a: Int!\n}\n"
	case "fieldArgs":
		sdls[a] += "type SigA {\n  a(x: Int): String\n}\n"
		sdls[b] += "type SigA {\n  a(y: Int): String\n}\n"
	case "fieldArgType":
		sdls[a] += "type SigB {\n  a(x: Int): String\n}\n"
		sdls[b] += "type SigB {\n  a(x: String): String\n}\n"
	case "inputFieldType":
		sdls[a] += "input SigIn {\n  a: String\n}\n"
		sdls[b] += "input SigIn {\n  a: Int\n}\n"
	case "inputFieldDefault":
		sdls[a] += "input SigD {\n  a: Int = 1\n}\n"
		sdls[b] += "input SigD {\n  a: Int = 2\n}\n"
	case "argDefault":
		sdls[a] += "type SigC {\n  a(x: Int = 1): String\n}\n"
		sdls[b] += "type SigC {\n  a(x: Int = 2): String\n}\n"
	case "unionMembers":
		sdls[a] += "type UM1 {\n  a: String\n}\ntype UM2 {\n  b: String\n}\nunion Un = UM1 | UM2\n"
		sdls[b] += "type UM1 {\n  a: String\n}\nunion Un = UM1\n"
	case "unionMembersDisjoint":
		sdls[a] += "type UN1 {\n  a: String\n}\nunion Un2 = UN1\n"
		sdls[b] += "type UN2 {\n  b: String\n}\nunion Un2 = UN2\n"
	// ---- neutral edits: still mergeable by the statement (pairwise identical or disjoint)
	case "neutralThreeWay":
		sdls[a] += "type Tri {\n  a: String\n  b: String\n}\n"
		sdls[b] += "type Tri {\n  a: String\n  b: String\n}\n"
		sdls[c] += "type Tri {\n  c: String\n}\n"
	case "neutralIdentical":
		sdls[a] += "type Same {\n  a: String\n  b(x: Int = 3): [Int!]\n}\n"
		sdls[b] += "type Same {\n  a: String\n  b(x: Int = 3): [Int!]\n}\n"
	case "neutralDisjoint":
		sdls[a] += "type Disj {\n  a: String\n}\n"
		sdls[b] += "type Disj {\n  b: String\n}\n"
	case "neutralStubInterface":
		// one service only refers to a Node type (id-only declaration) and puts a marker interface on it
		sdls[a] = ensureNode(sdls[a]) + "interface Tagged {\n  id: ID!\n}\ntype Stub implements Node & Tagged {\n  id: ID!\n}\n"
		sdls[a] = addRootField(sdls[a], "Query", "taggedThings: [Tagged]")
		sdls[b] = ensureNode(sdls[b]) + "type Stub implements Node {\n  id: ID!\n  label: String\n  size: Int\n}\n"
	case "neutralCopyWithInterface":
		// a value type copied word for word, one service also files it under an interface of its own
		sdls[a] += "type Fee {\n  amount: Int\n  currency: String\n}\n"
		sdls[b] += "interface Charged {\n  amount: Int\n}\ntype Fee implements Charged {\n  amount: Int\n  currency: String\n}\n"
		sdls[b] = addRootField(sdls[b], "Query", "lastCharge: Charged")
	case "neutralUnderscoreRootFields":
		// a single leading underscore is an ordinary name (only two are reserved): the entry points of other federation schemes
		sdls[a] = addRootField(addRootField(sdls[a], "Query", "_service: String"), "Query", "_entities(ids: [ID!]!): [String]")
		sdls[b] = addRootField(sdls[b], "Query", "_info(x: Int): Int")
	case "neutralEnumExtend":
		sdls[a] += "enum Ext {\n  A\n  B\n}\n"
		sdls[b] += "enum Ext {\n  B\n  C\n}\n"
	}
}

var conflictKinds = []string{"dupUnderscoreQueryField", "kindUnderscoreObjectEnum", "partialUnderscoreObject", "dupQueryField", "dupMutationField", "dupSubscriptionField", "kindObjectEnum", "kindScalarObject", "kindInputObject",
	"kindInterfaceUnion", "nodeOneSide", "nodeFieldTwice", "nodeFieldTwicePartial", "partialObject", "partialObjectSubset", "partialInput", "partialInputSubset", "partialInterface", "partialInterfaceSubset", "idFieldType", "idInputFieldType", "idFieldArgs",
	"fieldType", "fieldNullability", "fieldListWrapper", "fieldListElemNullability", "argListWrapper", "inputFieldListWrapper", "fieldArgs", "fieldArgType", "inputFieldType", "inputFieldDefault", "argDefault", "unionMembers", "unionMembersDisjoint"}
var neutralKinds = []string{"neutralThreeWay", "neutralIdentical", "neutralDisjoint", "neutralEnumExtend", "neutralStubInterface", "neutralCopyWithInterface", "neutralUnderscoreRootFields"}

// conflictGate maps a conflict kind to the feature class used by known-finding gates.
func conflictGate(kind string) string { return "merge." + kind }

type mergeOutcome struct {
	accepted bool
	err      string
	facts    []string
	routes   []string
}

func mergeOutcomeOf(w *world.World, order []int, mergerName string) (*mergeOutcome, *ev.Failure) {
	res, err, pan := runMerge(w, order, mergerName)
	if pan != "" {
		return nil, ev.Failf("panic", "Merge panicked for order %v: %s", order, pan)
	}
	if err != nil {
		if strings.HasPrefix(err.Error(), "HARNESS") {
			return nil, ev.Failf("harness", "%v", err)
		}
		return &mergeOutcome{err: err.Error()}, nil
	}
	o := &mergeOutcome{accepted: true, facts: sortedFacts(schemaFacts(res.Schema, factOpts{}))}
	// routes of root fields and of fields of Node types (shared plain types are last-writer by design)
	for tn, props := range res.TypeURLMap {
		if !(isRootName(tn) || props.IsImplementsNode) {
			continue
		}
		for fn, url := range props.Fields {
			o.routes = append(o.routes, tn+"."+fn+"->"+url)
		}
	}
	sort.Strings(o.routes)
	return o, nil
}

func checkC05(c *ConflictCase) *ev.Failure {
	if _, err := c.World.ServiceSchemas(); err != nil {
		return ev.Failf("harness", "edited service SDL must stay individually valid: %v", err)
	}
	var first *mergeOutcome
	var firstOrder []int
	for _, perm := range c.Perms {
		o, f := mergeOutcomeOf(c.World, perm, c.Merger)
		if f != nil {
			return f
		}
		if len(c.Conflicts) > 0 && o.accepted {
			return ev.Failf("accepted-conflict:"+strings.Join(c.Conflicts, "+"), "conflicting schemas (%v) were accepted for service order %v", c.Conflicts, perm)
		}
		if first == nil {
			first, firstOrder = o, perm
			continue
		}
		if o.accepted != first.accepted {
			return ev.Failf("order:acceptance", "order %v accepted=%v (%s) but order %v accepted=%v (%s)", firstOrder, first.accepted, first.err, perm, o.accepted, o.err)
		}
		if o.accepted {
			if d := firstDiff(first.facts, o.facts); d != "" {
				return ev.Failf("order:types", "merged schema differs between orders %v and %v: %s", firstOrder, perm, d)
			}
			if d := firstDiff(first.routes, o.routes); d != "" {
				return ev.Failf("order:routes", "root/Node-field routes differ between orders %v and %v: %s", firstOrder, perm, d)
			}
		}
	}
	return nil
}

func firstDiff(a, b []string) string {
	am := map[string]bool{}
	for _, x := range a {
		am[x] = true
	}
	bm := map[string]bool{}
	for _, x := range b {
		bm[x] = true
		if !am[x] {
			return "only in second: " + x
		}
	}
	for _, x := range a {
		if !bm[x] {
			return "only in first: " + x
		}
	}
	return ""
}

func genConflictCase(t *rapid.T) (*ConflictCase, *world.Model) {
	opt := world.DefaultOptions()
	opt.Subscriptions = true
	opt.MinServices = 2
	m := world.Generate(t, opt)
	w := m.Build()
	n := m.NServices
	sdls := make([]string, n)
	for i, s := range w.Services {
		sdls[i] = s.SDL
	}
	c := &ConflictCase{World: w, Merger: "extend"}
	if rapid.IntRange(0, 4).Draw(t, "sanitize") == 0 {
		c.Merger = "sanitize"
	}
	nEdits := rapid.IntRange(0, 2).Draw(t, "nconflicts")
	used := map[string]bool{}
	pickPair := func() (int, int, int) {
		a := rapid.IntRange(0, n-1).Draw(t, "a")
		b := rapid.IntRange(0, n-2).Draw(t, "b")
		if b >= a {
			b++
		}
		cc := -1
		if n >= 3 {
			for _, x := range rapid.Permutation(seq(n)).Draw(t, "c") {
				if x != a && x != b {
					cc = x
					break
				}
			}
		}
		return a, b, cc
	}
	for i := 0; i < nEdits; i++ {
		k := conflictKinds[rapid.IntRange(0, len(conflictKinds)-1).Draw(t, "kind")]
		if used[k] {
			continue
		}
		used[k] = true
		a, b, cc := pickPair()
		applyEdit(k, sdls, a, b, cc)
		c.Conflicts = append(c.Conflicts, k)
	}
	nNeutral := rapid.IntRange(0, 2).Draw(t, "nneutral")
	for i := 0; i < nNeutral; i++ {
		k := neutralKinds[rapid.IntRange(0, len(neutralKinds)-1).Draw(t, "nkind")]
		if used[k] {
			continue
		}
		a, b, cc := pickPair()
		if k == "neutralThreeWay" && cc < 0 {
			continue
		}
		used[k] = true
		applyEdit(k, sdls, a, b, cc)
		c.Neutral = append(c.Neutral, k)
	}
	for i := range w.Services {
		w.Services[i].SDL = sdls[i]
	}
	w.UnionSDL = ""
	if n <= 4 {
		c.Perms = permutations(seq(n))
	} else {
		c.Perms = append(c.Perms, seq(n))
		for i := 0; i < 23; i++ {
			c.Perms = append(c.Perms, rapid.Permutation(seq(n)).Draw(t, "perm"))
		}
	}
	return c, m
}

func TestC05(t *testing.T) {
	rec := ev.Get("C05")
	rec.Rule = "mergeable world (2..4 services) + 0..2 conflict edits from a catalogue of 35 (duplicate root field in Query/Mutation/Subscription, one name two kinds, Node on one side, Node field twice, partial overlap of objects/inputs, differing field type/nullability/arguments, differing union members) + 0..2 neutral edits (identical copies, disjoint split, three-way split, enum extension); every service SDL stays individually valid; all permutations of the service list are merged; non-trivial = an edit applied or >=3 services; distinct by hash(SDLs, merger)"
	defer census.dump("C05")
	rapid.Check(t, func(t *rapid.T) {
		c, m := genConflictCase(t)
		for _, k := range append(append([]string{}, c.Conflicts...), c.Neutral...) {
			if gateClosed(conflictGate(k)) {
				rec.Exclude(conflictGate(k))
				return
			}
		}
		labels := []string{fmt.Sprintf("services=%d", m.NServices), fmt.Sprintf("conflicts=%d", len(c.Conflicts))}
		for _, k := range c.Conflicts {
			labels = append(labels, "edit:"+k)
		}
		for _, k := range c.Neutral {
			labels = append(labels, "edit:"+k)
		}
		nt := len(c.Conflicts)+len(c.Neutral) > 0 || m.NServices >= 3
		rec.Case(ev.Hash(c.World.Services, c.Merger), nt, labels...)
		rec.AddExtra("merges_performed", len(c.Perms))
		rec.Sample(nt && len(c.Conflicts) > 0, func() interface{} {
			return map[string]interface{}{"conflicts": c.Conflicts, "neutral": c.Neutral, "services": c.World.Services, "permutations": len(c.Perms)}
		})
		if f := checkC05(c); f != nil {
			if isCensus() {
				census.add(f.Signature, trunc(f.Message, 300))
				return
			}
			if only := onlySig(); only != "" && !strings.HasPrefix(f.Signature, only) {
				return
			}
			ev.WriteFail("C05", c, f)
			t.Fatalf("%v", f)
		}
	})
}

func init() {
	replayers["C05"] = func(path string) (*ev.Failure, error) {
		var c ConflictCase
		if _, _, err := ev.LoadCase(path, &c); err != nil {
			return nil, err
		}
		return checkC05(&c), nil
	}
	_ = ast.Object
}
