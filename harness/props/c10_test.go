package props

import (
	"bytes"
	"encoding/json"
	"fmt"
	"reflect"
	"strings"
	"sync"
	"testing"
	"time"

	"github.com/vektah/gqlparser/v2"
	"github.com/vektah/gqlparser/v2/ast"
	"github.com/vektah/gqlparser/v2/formatter"
	"github.com/vektah/gqlparser/v2/parser"
	"pgregory.net/rapid"

	"verif/harness/ev"
	"verif/harness/fake"
	"verif/harness/gwx"
	"verif/harness/refexec"
	"verif/harness/subx"
)

// InvalidCase: an operation made invalid by one edit (C10a), or a valid one whose sub-request is answered with errors (C10b).
type InvalidCase struct {
	ExecCase
	Edit string `json:"edit,omitempty"`
	// Errors: payload returned by the service for the sub-request identified by Fault (C10b)
	ErrorPayload []map[string]interface{} `json:"error_payload,omitempty"`
	Fault        *Fault                   `json:"fault,omitempty"`
	WithData     bool                     `json:"with_data,omitempty"`
	// a second sub-request (another service, or a later request to the same one) failing in the same run
	ErrorPayload2 []map[string]interface{} `json:"error_payload2,omitempty"`
	Fault2        *Fault                   `json:"fault2,omitempty"`
}

var editKinds = []string{"unknownField", "unknownType", "unknownArgument", "unknownDirective", "undefinedVariable", "unusedVariable", "wrongVariableType",
	"fragmentCycle", "unusedFragment", "selectionOnScalar", "missingSelection", "missingRequiredArgument", "twoOperationsNoName", "unknownOperationName", "syntaxError", "unknownEnumValue", "wrongArgumentType"}

func allFields(ss ast.SelectionSet, out *[]*ast.Field, seen map[string]bool) {
	for _, s := range ss {
		switch x := s.(type) {
		case *ast.Field:
			*out = append(*out, x)
			allFields(x.SelectionSet, out, seen)
		case *ast.InlineFragment:
			allFields(x.SelectionSet, out, seen)
		case *ast.FragmentSpread:
			if x.Definition != nil && !seen[x.Name] {
				seen[x.Name] = true
				allFields(x.Definition.SelectionSet, out, seen)
			}
		}
	}
}

func formatDoc(doc *ast.QueryDocument) string {
	var buf bytes.Buffer
	formatter.NewFormatter(&buf).FormatQueryDocument(doc)
	return buf.String()
}

// applyEditKind returns the edited query text and operationName; ok=false if the edit does not apply.
func applyEditKind(t *rapid.T, kind string, schema *ast.Schema, query string, opName *string) (string, *string, bool) {
	doc, err := parser.ParseQuery(&ast.Source{Input: query})
	if err != nil || len(doc.Operations) == 0 {
		return "", nil, false
	}
	// need definitions for type-aware edits
	vdoc, verr := gqlparser.LoadQuery(schema, query)
	if verr != nil {
		return "", nil, false
	}
	op := doc.Operations[0]
	var fields []*ast.Field
	allFields(op.SelectionSet, &fields, map[string]bool{})
	for _, fr := range doc.Fragments {
		allFields(fr.SelectionSet, &fields, map[string]bool{})
	}
	var vfields []*ast.Field
	allFields(vdoc.Operations[0].SelectionSet, &vfields, map[string]bool{})
	if len(fields) == 0 {
		return "", nil, false
	}
	pick := func(n int, label string) int { return rapid.IntRange(0, n-1).Draw(t, label) }
	switch kind {
	case "unknownField":
		f := fields[pick(len(fields), "f")]
		if len(f.SelectionSet) > 0 {
			f.SelectionSet = append(f.SelectionSet, &ast.Field{Name: "nopeField", Alias: "nopeField"})
		} else {
			op.SelectionSet = append(op.SelectionSet, &ast.Field{Name: "nopeField", Alias: "nopeField"})
		}
	case "unknownType":
		op.SelectionSet = append(op.SelectionSet, &ast.InlineFragment{TypeCondition: "NopeType", SelectionSet: ast.SelectionSet{&ast.Field{Name: "__typename", Alias: "__typename"}}})
	case "unknownArgument":
		f := fields[pick(len(fields), "f")]
		f.Arguments = append(f.Arguments, &ast.Argument{Name: "nopeArg", Value: &ast.Value{Kind: ast.IntValue, Raw: "1"}})
	case "unknownDirective":
		f := fields[pick(len(fields), "f")]
		f.Directives = append(f.Directives, &ast.Directive{Name: "nope"})
	case "undefinedVariable":
		f := fields[pick(len(fields), "f")]
		f.Directives = append(f.Directives, &ast.Directive{Name: "include", Arguments: ast.ArgumentList{{Name: "if", Value: &ast.Value{Kind: ast.Variable, Raw: "undefinedVar"}}}})
	case "unusedVariable":
		op.VariableDefinitions = append(op.VariableDefinitions, &ast.VariableDefinition{Variable: "unusedVar", Type: ast.NamedType("Int", nil)})
		if op.Name == "" {
			// anonymous shorthand cannot carry variables once printed; the formatter prints "query" then
		}
	case "wrongVariableType":
		if len(op.VariableDefinitions) == 0 {
			return "", nil, false
		}
		vd := op.VariableDefinitions[pick(len(op.VariableDefinitions), "vd")]
		vd.Type = ast.ListType(ast.ListType(ast.NamedType("Boolean", nil), nil), nil)
		vd.DefaultValue = nil
	case "fragmentCycle":
		root := "Query"
		if op.Operation == ast.Mutation {
			root = "Mutation"
		}
		doc.Fragments = append(doc.Fragments,
			&ast.FragmentDefinition{Name: "CycA", TypeCondition: root, SelectionSet: ast.SelectionSet{&ast.FragmentSpread{Name: "CycB"}}},
			&ast.FragmentDefinition{Name: "CycB", TypeCondition: root, SelectionSet: ast.SelectionSet{&ast.FragmentSpread{Name: "CycA"}}})
		op.SelectionSet = append(op.SelectionSet, &ast.FragmentSpread{Name: "CycA"})
	case "unusedFragment":
		root := "Query"
		if op.Operation == ast.Mutation {
			root = "Mutation"
		}
		doc.Fragments = append(doc.Fragments, &ast.FragmentDefinition{Name: "NeverUsed", TypeCondition: root, SelectionSet: ast.SelectionSet{&ast.Field{Name: "__typename", Alias: "__typename"}}})
	case "selectionOnScalar":
		var leafs []*ast.Field
		for i, f := range vfields {
			if i < len(fields) && len(f.SelectionSet) == 0 && f.Name != "__typename" && fields[i].Name == f.Name {
				leafs = append(leafs, fields[i])
			}
		}
		if len(leafs) == 0 {
			return "", nil, false
		}
		f := leafs[pick(len(leafs), "leaf")]
		f.SelectionSet = ast.SelectionSet{&ast.Field{Name: "__typename", Alias: "__typename"}}
	case "missingSelection":
		var comps []*ast.Field
		for _, f := range fields {
			if len(f.SelectionSet) > 0 {
				comps = append(comps, f)
			}
		}
		if len(comps) == 0 {
			return "", nil, false
		}
		comps[pick(len(comps), "comp")].SelectionSet = nil
	case "missingRequiredArgument":
		var cands []int
		for i, f := range vfields {
			if i >= len(fields) || fields[i].Name != f.Name || f.Definition == nil {
				continue
			}
			for _, ad := range f.Definition.Arguments {
				if ad.Type.NonNull && ad.DefaultValue == nil && fields[i].Arguments.ForName(ad.Name) != nil {
					cands = append(cands, i)
				}
			}
		}
		if len(cands) == 0 {
			return "", nil, false
		}
		i := cands[pick(len(cands), "req")]
		var kept ast.ArgumentList
		removed := false
		for _, a := range fields[i].Arguments {
			ad := vfields[i].Definition.Arguments.ForName(a.Name)
			if !removed && ad != nil && ad.Type.NonNull && ad.DefaultValue == nil {
				removed = true
				continue
			}
			kept = append(kept, a)
		}
		fields[i].Arguments = kept
	case "unknownEnumValue", "wrongArgumentType":
		var cands []*ast.Argument
		for _, f := range fields {
			for _, a := range f.Arguments {
				if a.Value != nil && a.Value.Kind != ast.Variable {
					cands = append(cands, a)
				}
			}
		}
		if len(cands) == 0 {
			return "", nil, false
		}
		a := cands[pick(len(cands), "arg")]
		if kind == "unknownEnumValue" {
			a.Value = &ast.Value{Kind: ast.EnumValue, Raw: "NOPE_VALUE"}
		} else {
			a.Value = &ast.Value{Kind: ast.ObjectValue, Children: ast.ChildValueList{{Name: "nopeKey", Value: &ast.Value{Kind: ast.IntValue, Raw: "1"}}}}
		}
	case "twoOperationsNoName":
		if op.Name == "" {
			op.Name = "First"
		}
		doc.Operations = append(doc.Operations, &ast.OperationDefinition{Operation: ast.Query, Name: "Second", SelectionSet: ast.SelectionSet{&ast.Field{Name: "__typename", Alias: "__typename"}}})
		return formatDoc(doc), nil, true
	case "unknownOperationName":
		n := "NopeOperation"
		return query, &n, true
	case "syntaxError":
		q := strings.TrimRight(query, " \n")
		cut := rapid.IntRange(1, 3).Draw(t, "cut")
		if len(q) <= cut {
			return "", nil, false
		}
		return q[:len(q)-cut] + rapid.SampledFrom([]string{"", "{", "(", "$", "...", "@"}).Draw(t, "junk"), opName, true
	}
	return formatDoc(doc), opName, true
}

func errorClauseEqual(want, got map[string]interface{}) bool {
	if want["message"] != got["message"] {
		return false
	}
	we, _ := want["extensions"]
	ge, _ := got["extensions"]
	if !reflect.DeepEqual(refexec.Normalize(we), refexec.Normalize(ge)) {
		return false
	}
	wp, _ := want["path"]
	gp, _ := got["path"]
	if wp == nil {
		wp = nil
	}
	return reflect.DeepEqual(refexec.Normalize(wp), refexec.Normalize(gp)) || (wp == nil && gp == nil)
}

func checkC10(c *InvalidCase) (*ev.Failure, string) {
	net, err := fake.NewNet(c.World)
	if err != nil {
		return ev.Failf("harness", "%v", err), ""
	}
	gw, err := gwx.Build(c.World, net, c.Config)
	if err != nil {
		return ev.Failf("harness", "world does not merge: %v", err), ""
	}
	if c.Edit != "" {
		union, err := c.World.UnionSchema()
		if err != nil {
			return ev.Failf("harness", "%v", err), ""
		}
		doc, verrs := gqlparser.LoadQuery(union, c.Op.Query)
		if verrs == nil {
			if _, perr := refexec.PickOperation(doc, c.Op.OperationName); perr == nil {
				return nil, "skip:edit-did-not-invalidate"
			}
		}
		if verrs == nil {
			// the document itself is valid, only no operation can be selected from it: the same text was possibly
			// sent before with a name that selects one (nothing remembered from that request may answer this one)
			for _, o := range doc.Operations {
				if o.Name != "" {
					n := o.Name
					gwx.PostOp(gw, gwx.GQLRequest{Query: c.Op.Query, Variables: c.Op.Variables, OperationName: &n}, 10*time.Second)
					net.Reset()
					break
				}
			}
		}
		resp := gwx.PostOp(gw, gwx.GQLRequest{Query: c.Op.Query, Variables: c.Op.Variables, OperationName: c.Op.OperationName}, 10*time.Second)
		if resp.TimedOut {
			return ev.Failf("hang", "no response"), ""
		}
		if resp.Panic != "" {
			return ev.Failf("panic:"+gwx.PanicSite(resp.Panic), "%s", trunc(resp.Panic, 1000)), ""
		}
		if log := net.Snapshot(); len(log) > 0 {
			return ev.Failf("reached-downstream", "an invalid operation (%s) caused %d downstream request(s), first to %s:\n%s", c.Edit, len(log), log[0].Service, log[0].Query), ""
		}
		var parsed map[string]interface{}
		if err := json.Unmarshal(resp.Body, &parsed); err != nil || resp.Status != 200 {
			return ev.Failf("envelope", "status %d body %s", resp.Status, trunc(string(resp.Body), 300)), ""
		}
		if l, _ := parsed["errors"].([]interface{}); len(l) == 0 {
			return ev.Failf("no-errors", "invalid operation (%s) answered without errors: %s", c.Edit, trunc(string(resp.Body), 300)), ""
		}
		if d, has := parsed["data"]; !has || d != nil {
			return ev.Failf("data-not-null", "invalid operation (%s) answered with data %v", c.Edit, d), ""
		}
		return nil, "invalid:" + c.Edit
	}
	// C10b: downstream errors reach the client intact
	hit, hit2 := 0, 0
	occ := map[string]int{}
	var mu sync.Mutex
	net.Fault = func(callIdx int, url string, reqs []*fake.Received, normal []map[string]interface{}) *fake.FaultResponse {
		if len(reqs) == 0 || c.Fault == nil {
			return nil
		}
		mu.Lock()
		defer mu.Unlock()
		n := occ[url]
		occ[url]++
		var fl *Fault
		var payload []map[string]interface{}
		switch {
		case url == c.Fault.URL && n == c.Fault.Occurrence && c.Fault.Pos < len(normal):
			fl, payload = c.Fault, c.ErrorPayload
			hit++
		case c.Fault2 != nil && url == c.Fault2.URL && n == c.Fault2.Occurrence && c.Fault2.Pos < len(normal):
			fl, payload = c.Fault2, c.ErrorPayload2
			hit2++
		default:
			return nil
		}
		elems := make([]interface{}, len(normal))
		for i := range normal {
			elems[i] = normal[i]
		}
		el := map[string]interface{}{"errors": payload}
		if c.WithData {
			el["data"] = normal[fl.Pos]["data"]
		} else {
			el["data"] = nil
		}
		elems[fl.Pos] = el
		b, _ := json.Marshal(elems)
		return &fake.FaultResponse{Body: b}
	}
	resp := gwx.PostOp(gw, gwx.GQLRequest{Query: c.Op.Query, Variables: c.Op.Variables, OperationName: c.Op.OperationName}, 10*time.Second)
	if hit == 0 && hit2 == 0 {
		return nil, "skip:fault-not-hit"
	}
	if resp.TimedOut || resp.Panic != "" || resp.Status != 200 {
		return ev.Failf("envelope", "status %d panic %q", resp.Status, trunc(resp.Panic, 300)), ""
	}
	dec, derr := gwx.Decode(resp.Body)
	if derr != nil {
		return ev.Failf("envelope", "%v", derr), ""
	}
	var wanted []map[string]interface{}
	if hit > 0 {
		wanted = append(wanted, c.ErrorPayload...)
	}
	if hit2 > 0 {
		wanted = append(wanted, c.ErrorPayload2...)
	}
	for _, want := range wanted {
		found := false
		for _, got := range dec.Errors {
			if errorClauseEqual(want, got) {
				found = true
			}
		}
		if !found {
			clause := "message"
			for _, got := range dec.Errors {
				if got["message"] == want["message"] {
					clause = "extensions-or-path"
				}
			}
			return ev.Failf("error-lost:"+clause, "service error %s does not reach the client intact; client errors %s", jsonOf(want), trunc(jsonOf(dec.Errors), 600)), ""
		}
	}
	if hit > 0 && hit2 > 0 {
		return nil, "service-errors-two-requests"
	}
	return nil, "service-errors"
}

func genErrorPayload(t *rapid.T) []map[string]interface{} {
	n := rapid.IntRange(1, 4).Draw(t, "nerr")
	if rapid.IntRange(0, 11).Draw(t, "manyerrs") == 0 {
		n = rapid.IntRange(21, 40).Draw(t, "nerrmany") // a long list (every field of a page failing): nothing is cut off
	}
	var res []map[string]interface{}
	for i := 0; i < n; i++ {
		e := map[string]interface{}{"message": rapid.SampledFrom([]string{"boom", "not found: ü", "quote \" inside", "", "line\nbreak", "x"}).Draw(t, "msg") + fmt.Sprint(i)}
		switch rapid.IntRange(0, 3).Draw(t, "ext") {
		case 0:
			e["extensions"] = map[string]interface{}{"code": "FORBIDDEN"}
		case 1:
			e["extensions"] = map[string]interface{}{"code": "X", "nested": map[string]interface{}{"a": []interface{}{1.5, "b", nil}, "ok": true}}
		case 2:
			e["extensions"] = map[string]interface{}{}
		}
		switch rapid.IntRange(0, 2).Draw(t, "path") {
		case 0:
			e["path"] = []interface{}{"node", "friends", float64(rapid.IntRange(0, 3).Draw(t, "pi")), "name"}
		case 1:
			e["path"] = []interface{}{"getThing"}
		}
		if rapid.IntRange(0, 2).Draw(t, "loc") == 0 {
			e["locations"] = []interface{}{map[string]interface{}{"line": float64(2), "column": float64(3)}}
		}
		res = append(res, e)
	}
	if n >= 2 && rapid.IntRange(0, 2).Draw(t, "samemsg") == 0 {
		// the same failure at several places: equal message and code, different paths
		for i, e := range res {
			e["message"] = "not authorized"
			e["extensions"] = map[string]interface{}{"code": "FORBIDDEN"}
			e["path"] = []interface{}{"items", float64(i), "secret"}
		}
	}
	return res
}

func TestC10(t *testing.T) {
	rec := ev.Get("C10")
	rec.Rule = "(a) a valid generated operation whose execution causes downstream requests receives exactly one invalidating edit out of 17 kinds (unknown field/type/argument/directive/enum value, wrong argument or variable type, undefined/unused variable, fragment cycle, unused fragment, selection on scalar, missing selection, missing required argument, two operations without operationName, unknown operationName, syntax error), invalidity confirmed with gqlparser on the union schema; oracle: no request reaches any fake, errors non-empty, data null. (b) one sub-request of a valid operation is answered with a generated errors payload (1..4 errors, now and then 21..40; unicode/quotes, nested extensions, string/int paths, locations), in half of the cases a second sub-request of the same run (another service, or a later request) fails too, half of those with the same messages but own path/extensions; oracle: every payload error of every sub-request that was answered with errors appears in the client's errors with message, extensions, path equal. non-trivial = (a) the unedited original reaches >=2 services, (b) an error carries extensions and path; distinct by hash(case)"
	defer census.dump("C10")
	rapid.Check(t, func(t *rapid.T) {
		opType := ast.Query
		if rapid.IntRange(0, 4).Draw(t, "mutation") == 0 {
			opType = ast.Mutation
		}
		base, _ := genExecCase(t, rec, opType)
		if base == nil {
			return
		}
		base.Config.Planner = ""
		base.Config.MaxBatch = rapid.SampledFrom([]int{0, 0, 1, 2, 3}).Draw(t, "maxbatch") // 0 = default 3000; small sizes reach the chunked path
		fs := caseFeatures(base)
		if g := closedGateIn(fs); g != "" {
			rec.Exclude(g)
			return
		}
		ev.Current("C10", &InvalidCase{ExecCase: *base})
		f0, out := checkC01(base)
		if out == nil || out.Skip != "" || f0 != nil {
			rec.Class("skip:clean-run-not-clean", 1)
			return
		}
		calls := recordCalls(out.Log)
		if len(calls) == 0 {
			rec.Class("skip:no-downstream-call", 1)
			return
		}
		services := map[string]bool{}
		for _, cr := range calls {
			services[cr.URL] = true
		}
		union, _ := base.World.UnionSchema()
		var c *InvalidCase
		nt := false
		if rapid.IntRange(0, 2).Draw(t, "mode") > 0 {
			kind := editKinds[rapid.IntRange(0, len(editKinds)-1).Draw(t, "edit")]
			q, on, ok := applyEditKind(t, kind, union, base.Op.Query, base.Op.OperationName)
			if !ok {
				rec.Class("skip:edit-not-applicable:"+kind, 1)
				return
			}
			c = &InvalidCase{ExecCase: *base, Edit: kind}
			c.Op.Query, c.Op.OperationName = q, on
			nt = len(services) >= 2
		} else {
			cr := calls[rapid.IntRange(0, len(calls)-1).Draw(t, "call")]
			occ := 0
			for _, x := range calls {
				if x == cr {
					break
				}
				if x.URL == cr.URL {
					occ++
				}
			}
			c = &InvalidCase{ExecCase: *base, ErrorPayload: genErrorPayload(t), WithData: rapid.Bool().Draw(t, "withdata"),
				Fault: &Fault{URL: cr.URL, Occurrence: occ, Pos: rapid.IntRange(0, cr.BatchSize-1).Draw(t, "pos")}}
			for _, e := range c.ErrorPayload {
				if e["extensions"] != nil && e["path"] != nil {
					nt = true
				}
			}
			if len(calls) > 1 && rapid.IntRange(0, 1).Draw(t, "second") == 0 {
				// another sub-request of the same run fails too; half of the time with the same message (one cause,
				// two services: each error has its own path and extensions and must reach the client)
				var others []callRecord
				for _, x := range calls {
					if x != cr {
						others = append(others, x)
					}
				}
				if len(others) > 0 {
					cr2 := others[rapid.IntRange(0, len(others)-1).Draw(t, "call2")]
					occ2 := 0
					for _, x := range calls {
						if x == cr2 {
							break
						}
						if x.URL == cr2.URL {
							occ2++
						}
					}
					c.Fault2 = &Fault{URL: cr2.URL, Occurrence: occ2, Pos: rapid.IntRange(0, cr2.BatchSize-1).Draw(t, "pos2")}
					same := rapid.Bool().Draw(t, "samemsg2")
					for i, e := range c.ErrorPayload {
						e2 := map[string]interface{}{"message": fmt.Sprintf("second %d", i), "path": []interface{}{"second", float64(i)},
							"extensions": map[string]interface{}{"code": "FORBIDDEN", "service": "second"}}
						if same {
							e2["message"] = e["message"]
						}
						c.ErrorPayload2 = append(c.ErrorPayload2, e2)
					}
				}
			}
		}
		ev.Current("C10", c)
		f, class := checkC10(c)
		if strings.HasPrefix(class, "skip:") {
			rec.Class(class, 1)
			return
		}
		rec.Case(ev.Hash(c), nt, class, fmt.Sprintf("services=%d", len(services)), fmt.Sprintf("maxbatch=%d", c.Config.MaxBatch))
		rec.Sample(nt, func() interface{} {
			return map[string]interface{}{"edit": c.Edit, "query": c.Op.Query, "operationName": c.Op.OperationName, "error_payload": c.ErrorPayload, "fault": c.Fault}
		})
		if f != nil {
			if isCensus() {
				census.add(f.Signature, c.Op.Query+" ## "+trunc(f.Message, 300))
				return
			}
			ev.WriteFail("C10", c, f)
			t.Fatalf("%v", f)
		}
	})
}

func init() {
	replayers["C10"] = func(path string) (*ev.Failure, error) {
		var sc SubInvalidCase
		if _, _, err := ev.LoadCase(path, &sc); err == nil && sc.SubInvalid {
			return checkC10Sub(&sc), nil
		}
		var c InvalidCase
		if _, _, err := ev.LoadCase(path, &c); err != nil {
			return nil, err
		}
		f, class := checkC10(&c)
		if f == nil && strings.HasPrefix(class, "skip:") {
			return nil, fmt.Errorf("replay case outside the domain: %s", class)
		}
		return f, nil
	}
}

// SubInvalidCase: on one websocket connection a valid subscription is started first (history), then a start message
// whose operation cannot be executed; the gateway must answer it alone.
type SubInvalidCase struct {
	SubInvalid bool `json:"sub_invalid"`
	// FirstNamed: the valid first start carries an operationName (and variables)
	FirstNamed bool   `json:"first_named"`
	Kind       string `json:"kind"` // ambiguous | unknownName | unknownField | syntax | queryNotSubscription
}

var subInvalidKinds = []string{"ambiguous", "unknownName", "unknownField", "syntax"}

func checkC10Sub(c *SubInvalidCase) *ev.Failure {
	w := teardownWorld()
	net, _ := fake.NewNet(w)
	up := subx.NewUpstream(net)
	gw, err := gwx.BuildWithFactory(w, net, gwx.Config{}, up.Factory())
	if err != nil {
		return ev.Failf("harness", "%v", err)
	}
	cc, err := subx.Connect(gw)
	if err != nil {
		return ev.Failf("harness", "%v", err)
	}
	defer cc.Close()
	cc.SendJSON(map[string]interface{}{"type": "connection_init"})
	first := map[string]interface{}{"query": "subscription A { tick }"}
	if c.FirstNamed {
		first["operationName"] = "A"
		first["variables"] = map[string]interface{}{"unused": 1}
		first["query"] = "subscription A { tick } subscription B { humanAdded { name } }"
	}
	cc.SendJSON(map[string]interface{}{"type": "start", "id": "ok", "payload": first})
	select {
	case <-up.NewSub:
	case <-time.After(20 * time.Second):
		return ev.Failf("harness", "the valid subscription was not started upstream")
	}
	net.Reset()
	var payload map[string]interface{}
	switch c.Kind {
	case "ambiguous":
		payload = map[string]interface{}{"query": "subscription A { tick } subscription B { humanAdded { name } }"}
	case "unknownName":
		payload = map[string]interface{}{"query": "subscription A { tick } subscription B { humanAdded { name } }", "operationName": "C"}
	case "unknownField":
		payload = map[string]interface{}{"query": "subscription { tick nope }"}
	default:
		payload = map[string]interface{}{"query": "subscription { tick "}
	}
	cc.MarkEnding() // the gateway may drop the connection on an invalid start; that is its answer then
	cc.SendJSON(map[string]interface{}{"type": "start", "id": "bad", "payload": payload})
	select {
	case s := <-up.NewSub:
		return ev.Failf("reached-downstream", "a subscription start that cannot be executed (%s) after a valid start on the same connection opened an upstream subscription: %s", c.Kind, s.Req.Query)
	case <-time.After(300 * time.Millisecond):
	}
	if log := net.Snapshot(); len(log) > 0 {
		return ev.Failf("reached-downstream", "a subscription start that cannot be executed (%s) caused %d downstream request(s)", c.Kind, len(log))
	}
	return nil
}

func TestC10Subscription(t *testing.T) {
	rec := ev.Get("C10")
	rapid.Check(t, func(t *rapid.T) {
		c := &SubInvalidCase{SubInvalid: true, FirstNamed: rapid.Bool().Draw(t, "firstnamed"), Kind: rapid.SampledFrom(subInvalidKinds).Draw(t, "kind")}
		ev.Current("C10", c)
		f := checkC10Sub(c)
		rec.Case(ev.Hash(c), true, "subscription-invalid:"+c.Kind)
		if f != nil {
			ev.WriteFail("C10", c, f)
			t.Fatalf("%v", f)
		}
	})
}
