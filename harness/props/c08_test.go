package props

import (
	"encoding/json"
	"fmt"
	"sort"
	"strings"
	"testing"
	"time"

	"github.com/vektah/gqlparser/v2"
	"github.com/vektah/gqlparser/v2/ast"
	"pgregory.net/rapid"

	"verif/harness/ev"
	"verif/harness/fake"
	"verif/harness/gwx"
	"verif/harness/opgen"
	"verif/harness/refexec"
	"verif/harness/world"
)

// ContentRule: fault or delay applied to every HTTP call at URL whose first request has the given query text.
type ContentRule struct {
	URL     string `json:"url"`
	Query   string `json:"query"`
	Kind    string `json:"kind,omitempty"` // "", "transport", "errors", "status500"
	DelayUS int    `json:"delay_us,omitempty"`
}

type BatchOpsCase struct {
	World  *world.World     `json:"world"`
	Config gwx.Config       `json:"config"`
	Ops    []gwx.GQLRequest `json:"ops"`
	Kinds  []string         `json:"kinds"`
	Rules  []ContentRule    `json:"rules,omitempty"`
}

// installRules applies content-keyed rules: a rule matches an HTTP call if ANY request of the call carries the
// rule's query text (the position of a request inside a call depends on goroutine scheduling).
func installRules(net *fake.Net, rules []ContentRule) {
	match := func(r ContentRule, url string, reqs []*fake.Received) int {
		if r.URL != url {
			return -1
		}
		for j, q := range reqs {
			if q.Query == r.Query {
				return j
			}
		}
		return -1
	}
	net.BeforeRespond = func(url string, reqs []*fake.Received) {
		for _, r := range rules {
			if r.DelayUS > 0 && match(r, url, reqs) >= 0 {
				time.Sleep(time.Duration(r.DelayUS) * time.Microsecond)
			}
		}
	}
	net.Fault = func(callIdx int, url string, reqs []*fake.Received, normal []map[string]interface{}) *fake.FaultResponse {
		for _, r := range rules {
			if r.Kind == "" {
				continue
			}
			if j := match(r, url, reqs); j >= 0 {
				kind := map[string]string{"transport": "transport", "errors": "errors-no-data", "status500": "status500"}[r.Kind]
				if fr, ok := applyFault(Fault{Kind: kind, Pos: j}, reqs, normal); ok {
					return fr
				}
			}
		}
		return nil
	}
}

func resultKey(r *gwx.GQLResponse) (string, []string) {
	var errs []string
	for _, e := range r.Errors {
		m := map[string]interface{}{"message": e["message"], "path": e["path"], "extensions": e["extensions"]}
		if s, ok := e["message"].(string); ok {
			parts := strings.Split(s, ". ")
			sort.Strings(parts)
			m["message"] = strings.Join(parts, ". ")
		}
		errs = append(errs, canonical(m))
	}
	sort.Strings(errs)
	return canonical(r.Data), errs
}

func checkC08(c *BatchOpsCase) *ev.Failure {
	net, err := fake.NewNet(c.World)
	if err != nil {
		return ev.Failf("harness", "%v", err)
	}
	gw, err := gwx.Build(c.World, net, c.Config)
	if err != nil {
		return ev.Failf("harness", "world does not merge: %v", err)
	}
	installRules(net, c.Rules)
	body, _ := json.Marshal(c.Ops)
	if len(c.Ops) == 0 {
		body = []byte("[]")
	}
	resp := gwx.Post(gw, body, "application/json", 15*time.Second)
	if resp.TimedOut {
		return ev.Failf("hang", "batch of %d not answered within 15s", len(c.Ops))
	}
	if resp.Panic != "" {
		return ev.Failf("panic:"+gwx.PanicSite(resp.Panic), "%s", trunc(resp.Panic, 800))
	}
	if resp.Status != 200 {
		return ev.Failf("status", "batch answered with status %d: %s", resp.Status, trunc(string(resp.Body), 300))
	}
	var raw []json.RawMessage
	if err := json.Unmarshal(resp.Body, &raw); err != nil {
		return ev.Failf("length", "batch response is not a JSON array: %s", trunc(string(resp.Body), 300))
	}
	if len(raw) != len(c.Ops) {
		return ev.Failf("length", "batch of %d operations answered with %d results", len(c.Ops), len(raw))
	}
	// executions: what the services were asked to execute for the batch is what they are asked for the operations alone
	// (a mutation repeated in a batch is executed as often as it is written)
	var rootVarsBatch, rootVarsAlone []string
	mutationsSeen := func(rootVars *[]string) []string {
		var r []string
		for _, q := range net.Snapshot() {
			if q.OpKeyword == "mutation" {
				r = append(r, q.Service+" | "+q.Query+" | "+canonical(q.Variables))
			}
			// the client's variables reach the services as written, in a batch as alone (root sub-requests carry only them)
			if !strings.Contains(q.Query, "node(id: $id)") {
				*rootVars = append(*rootVars, q.Service+" | "+q.Query+" | "+q.VariablesText)
			}
		}
		net.Reset()
		return r
	}
	inBatch := mutationsSeen(&rootVarsBatch)
	var alone []string
	for i, op := range c.Ops {
		got, derr := gwx.Decode(raw[i])
		if derr != nil {
			return ev.Failf("element-differs", "result %d is not an object: %s", i, trunc(string(raw[i]), 200))
		}
		single := gwx.PostOp(gw, op, 15*time.Second)
		if single.TimedOut || single.Panic != "" {
			return ev.Failf("harness", "single run of op %d did not complete: %s", i, trunc(single.Panic, 300))
		}
		alone = append(alone, mutationsSeen(&rootVarsAlone)...)
		want, werr := gwx.Decode(single.Body)
		if werr != nil {
			return ev.Failf("harness", "single run of op %d: %v", i, werr)
		}
		gd, ge := resultKey(got)
		wd, we := resultKey(want)
		if gd != wd {
			return ev.Failf("element-differs:data", "result %d (%s) differs from what the operation gets alone\nalone %s\nbatch %s", i, c.Kinds[i], trunc(wd, 500), trunc(gd, 500))
		}
		if strings.Join(ge, "\n") != strings.Join(we, "\n") {
			return ev.Failf("element-differs:errors", "result %d (%s): errors differ from the single run\nalone %v\nbatch %v", i, c.Kinds[i], we, ge)
		}
	}
	sort.Strings(inBatch)
	sort.Strings(alone)
	if strings.Join(inBatch, "\n") != strings.Join(alone, "\n") {
		return ev.Failf("executions:mutations", "the services executed %d mutation sub-requests for the batch and %d for the same operations alone\nbatch %v\nalone %v", len(inBatch), len(alone), inBatch, alone)
	}
	sort.Strings(rootVarsBatch)
	sort.Strings(rootVarsAlone)
	if len(c.Rules) == 0 && strings.Join(rootVarsBatch, "\n") != strings.Join(rootVarsAlone, "\n") {
		for i := range rootVarsBatch {
			if i >= len(rootVarsAlone) || rootVarsBatch[i] != rootVarsAlone[i] {
				other := ""
				if i < len(rootVarsAlone) {
					other = rootVarsAlone[i]
				}
				return ev.Failf("element-differs:variables", "the root sub-requests of the batch differ from those of the operations alone\nbatch %s\nalone %s", trunc(rootVarsBatch[i], 400), trunc(other, 400))
			}
		}
		return ev.Failf("element-differs:variables", "the batch causes %d root sub-requests, the operations alone %d", len(rootVarsBatch), len(rootVarsAlone))
	}
	return nil
}

func TestC08(t *testing.T) {
	rec := ev.Get("C08")
	rec.Rule = "world x batch of 0..6 operations (12 thorough) mixing valid queries, mutations, introspection, operations made invalid by an edit, documents with two operations and no operationName, subscription operations posted over HTTP, verbatim repeats, operations whose downstream call fails (fault keyed by call content) and slow ones (delay keyed by call content), plain planner; oracle: the response is an array of the same length and element i equals (canonical data, error multiset) what operation i receives when posted alone to the same gateway under the same content-keyed rules; non-trivial = batch >=2 with >=1 valid and >=1 failing/invalid element; distinct by hash(case)"
	defer census.dump("C08")
	mixIntrospection = true
	defer func() { mixIntrospection = false }()
	maxOps := 6
	if ev.Thorough() {
		maxOps = 12
	}
	rapid.Check(t, func(t *rapid.T) {
		wopt := world.DefaultOptions()
		wopt.MinServices = 2
		wopt.ForceMutations = true
		wopt.Subscriptions = rapid.IntRange(0, 3).Draw(t, "withsubs") == 0
		m := world.Generate(t, wopt)
		w := m.Build()
		w.Store = world.GenerateStore(t, m, world.DefaultStoreOptions())
		union, err := w.UnionSchema()
		if err != nil {
			t.Fatalf("generator bug: %v", err)
		}
		c := &BatchOpsCase{World: w, Config: genConfig(t, m.NServices)}
		// the plan cache is C14's subject: two operations of a batch with one cache key would make "alone" depend on
		// which of them was planned first (a scheduling artefact of the known cache-key finding, not of batching)
		c.Config.Planner, c.Config.TTLNs = "", 0
		n := rapid.SampledFrom([]int{0, 1, 2, 2, 3, 3, 4, 4, 5, 6, maxOps, maxOps - 1}).Draw(t, "nops")
		valid, bad := 0, 0
		for i := 0; i < n; i++ {
			kind := rapid.SampledFrom([]string{"valid", "valid", "valid", "mutation", "invalid", "ambiguous", "subscription", "introspection", "repeat", "failing", "slow"}).Draw(t, "kind")
			o := opgen.DefaultOptions()
			o.IDs = entityIDs(w.Store)
			applyGates(&o)
			if kind == "mutation" && union.Mutation != nil {
				o.OpType = ast.Mutation
			}
			var req gwx.GQLRequest
			switch kind {
			case "introspection":
				req = gwx.GQLRequest{Query: rapid.SampledFrom(introspectionOps).Draw(t, "intro")}
			case "subscription":
				// a subscription operation posted over HTTP: whatever the answer is, it is the same in a batch and alone
				if union.Subscription == nil || len(union.Subscription.Fields) == 0 {
					kind = "valid"
					break
				}
				sf := union.Subscription.Fields[rapid.IntRange(0, len(union.Subscription.Fields)-1).Draw(t, "subfield")]
				if hasRequiredArgument(sf) {
					kind = "valid"
					break
				}
				req = gwx.GQLRequest{Query: fmt.Sprintf("subscription { %s { __typename } }", sf.Name)}
				if _, errs := gqlparser.LoadQuery(union, req.Query); errs != nil {
					req, kind = gwx.GQLRequest{}, "valid"
				}
			case "ambiguous":
				// several elements of one batch may be refused for the same reason (two operations, no operationName)
				req = gwx.GQLRequest{Query: rapid.SampledFrom([]string{"query A { __typename } query B { __typename }", "query A { __typename }\nmutation B { __typename }"}).Draw(t, "amb")}
			case "repeat":
				if len(c.Ops) == 0 {
					kind = "valid"
				} else {
					req = c.Ops[rapid.IntRange(0, len(c.Ops)-1).Draw(t, "rep")]
				}
			}
			if req.Query == "" {
				op := opgen.Generate(t, union, o)
				if op == nil {
					continue
				}
				ec := &ExecCase{World: w, Config: c.Config, Op: *op}
				if g := closedGateIn(caseFeatures(ec)); g != "" {
					rec.Exclude(g)
					return
				}
				req = gwx.GQLRequest{Query: op.Query, Variables: op.Variables, OperationName: op.OperationName}
				// 64-bit identifiers travel as JSON numbers that float64 cannot hold
				if doc, errs := gqlparser.LoadQuery(union, op.Query); errs == nil && len(op.Variables) > 0 && rapid.IntRange(0, 3).Draw(t, "bigid") == 0 {
					vars := map[string]interface{}{}
					for k, v := range op.Variables {
						vars[k] = v
					}
					for _, o := range doc.Operations {
						for _, vd := range o.VariableDefinitions {
							if _, isStr := vars[vd.Variable].(string); isStr && vd.Type.Elem == nil && vd.Type.NamedType == "ID" {
								vars[vd.Variable] = json.Number(rapid.SampledFrom([]string{"1541815603606036481", "9007199254740993", "-9223372036854775807"}).Draw(t, "bigidv"))
							}
						}
					}
					req.Variables = vars
				}
				switch kind {
				case "invalid":
					ek := editKinds[rapid.IntRange(0, len(editKinds)-1).Draw(t, "edit")]
					if q, on, ok := applyEditKind(t, ek, union, op.Query, op.OperationName); ok {
						req.Query, req.OperationName = q, on
					}
				case "failing", "slow":
					f0, out := checkC01(ec)
					if out == nil || out.Skip != "" || f0 != nil {
						// no fault or delay can be derived from this run; the operation stays in the batch as it is
						rec.Class("clean-run-not-clean", 1)
						kind = "valid"
						break
					}
					calls := recordCalls(out.Log)
					if len(calls) == 0 {
						kind = "valid"
						break
					}
					cr := calls[rapid.IntRange(0, len(calls)-1).Draw(t, "call")]
					rule := ContentRule{URL: cr.URL, Query: cr.Query}
					if kind == "failing" {
						rule.Kind = rapid.SampledFrom([]string{"transport", "errors", "status500"}).Draw(t, "fk")
					} else {
						rule.DelayUS = rapid.IntRange(300, 3000).Draw(t, "delay")
					}
					c.Rules = append(c.Rules, rule)
				}
			}
			c.Ops = append(c.Ops, req)
			c.Kinds = append(c.Kinds, kind)
			if kind == "invalid" || kind == "failing" || kind == "ambiguous" || kind == "subscription" {
				bad++
			} else {
				valid++
			}
		}
		ev.Current("C08", c)
		nt := len(c.Ops) >= 2 && valid >= 1 && bad >= 1
		labels := []string{fmt.Sprintf("n=%d", len(c.Ops)), "planner=" + c.Config.Planner}
		for _, k := range c.Kinds {
			labels = append(labels, "has:"+k)
		}
		rec.Case(ev.Hash(c), nt, dedup(labels)...)
		rec.Sample(nt, func() interface{} {
			return map[string]interface{}{"kinds": c.Kinds, "ops": c.Ops, "rules": c.Rules}
		})
		if f := checkC08(c); f != nil {
			if isCensus() {
				census.add(f.Signature, fmt.Sprint(c.Kinds)+" ## "+trunc(f.Message, 500))
				return
			}
			ev.WriteFail("C08", c, f)
			t.Fatalf("%v", f)
		}
	})
}

func dedup(a []string) []string {
	seen := map[string]bool{}
	var r []string
	for _, x := range a {
		if !seen[x] {
			seen[x] = true
			r = append(r, x)
		}
	}
	return r
}

func init() {
	replayers["C08"] = func(path string) (*ev.Failure, error) {
		var c BatchOpsCase
		if _, _, err := ev.LoadCase(path, &c); err != nil {
			return nil, err
		}
		for len(c.Kinds) < len(c.Ops) {
			c.Kinds = append(c.Kinds, "?")
		}
		return checkC08(&c), nil
	}
	_ = refexec.Normalize
}
