#!/bin/bash
# usage: triage_seed.sh <patch file> <property ids...>
# development triage that leaves /repo alone: applies the change to a scratch worktree (/dev/shm/dev/repo), runs a scratch COPY of /verif
# (/dev/shm/dev/verif, harness pointed at that worktree) and prints each check's verdict. The recorded evaluation of a seeded change
# is tools/run_seed.sh (applies to /repo itself, as the checks are registered).
export GOFLAGS=-mod=mod GOPROXY=off GOSUMDB=off GOTOOLCHAIN=local
D=/dev/shm/dev; mkdir -p $D
P=$(readlink -f $1); shift
[ -d $D/repo ] || { git -C /repo worktree prune; git -C /repo worktree add -q --detach $D/repo HEAD || exit 2; }
git -C $D/repo checkout -q -- . ; git -C $D/repo clean -fdq; git -C $D/repo checkout -q --detach $(git -C /repo rev-parse HEAD)
git -C $D/repo apply $P || { echo "TRIAGE: patch does not apply"; exit 2; }
rsync -a --delete --exclude .git --exclude replays --exclude .scratch --exclude 'harness/props/testdata' /verif/ $D/verif/
sed -i "s#=> /repo#=> $D/repo#" $D/verif/harness/go.mod
cd $D/verif
for id in "$@"; do
  out=$(./check $id --tier ${TIER:-quick} 2>&1); code=$?
  echo "TRIAGE $id exit=$code :: $(echo "$out" | grep -E '^VIOLATION|quick:|thorough:' | head -2 | sed "s#$D/verif#.#" | tr '\n' ' ')"
  echo "$out" | grep -B3 "^VIOLATION" | grep -v "^VIOLATION\|^KNOWN" | cut -c1-500 | head -4
done
git -C $D/repo checkout -q -- .
