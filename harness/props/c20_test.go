package props

import (
	"context"
	"errors"
	"fmt"
	"runtime"
	"sort"
	"strings"
	"sync"
	"sync/atomic"
	"testing"
	"time"

	"github.com/buildbuildio/pebbles/common"
	"github.com/buildbuildio/pebbles/gqlerrors"
	"github.com/buildbuildio/pebbles/verifhook"
	"pgregory.net/rapid"

	"verif/harness/ev"
)

// C20Case is one schedule-controlled execution of common.AsyncMapReduce.
type C20Case struct {
	N      int     `json:"n"`
	Err    []bool  `json:"err"`    // item i fails
	Groups [][]int `json:"groups"` // completion order: groups of workers released together, next group after previous processed
	// ReduceYield[i]: number of scheduler yields inside the reduce callback for item i (widens the reduce window)
	ReduceYield []int `json:"reduce_yield"`
	// MapYield[i]: yields inside map after release
	MapYield []int `json:"map_yield"`
	// HookYield: yields performed at each hook point (perturbation)
	HookYield map[string]int `json:"hook_yield"`
	// NoWait: release groups without waiting for the previous one to be processed
	NoWait bool `json:"no_wait"`
	// Rendezvous: no map function returns before all N of them are running (map functions may depend on each other)
	Rendezvous bool `json:"rendezvous,omitempty"`
	// Nested: every map function runs an inner AsyncMapReduce over this many items (fan-out inside fan-out, as the executor does)
	Nested int `json:"nested,omitempty"`
	// SameErr: every failing item fails with the same message (several sub-requests rejected for one reason)
	SameErr bool `json:"same_err,omitempty"`
	// SharedErrs: the error of item i is the one-element sub-slice all[i:i+1] of one error list (the errors of one
	// downstream batch answer, handed to the sub-requests they belong to)
	SharedErrs bool `json:"shared_errs,omitempty"`
	// CtxErrs: every third failing item fails with an error wrapping context.Canceled / context.DeadlineExceeded
	// (a sub-request cut short), the others with ordinary errors: each of them is still one error of the result
	CtxErrs bool `json:"ctx_errs,omitempty"`
}

func c20CtxErr(i int) error {
	if i%2 == 0 {
		return fmt.Errorf("item %d: %w", i, context.Canceled)
	}
	return fmt.Errorf("item %d: %w", i, context.DeadlineExceeded)
}

func c20ErrMsg(c *C20Case, i int) string {
	if c.SameErr {
		return "unauthorized"
	}
	return fmt.Sprintf("e%d", i)
}

var c20Points = []string{"amr.worker.sendErr", "amr.worker.sendRes", "amr.reducer.loop", "amr.reducer.afterReduce",
	"amr.reducer.afterErr", "amr.reducer.done", "amr.caller.beforeWait", "amr.caller.beforeDone", "amr.caller.beforeReturn"}

var c20HookMu sync.Mutex // hooks are process-global: one C20 case at a time

func yieldN(n int) {
	for i := 0; i < n; i++ {
		runtime.Gosched()
	}
	if n >= 3 {
		time.Sleep(50 * time.Microsecond)
	}
}

func amrGoroutines() int {
	buf := make([]byte, 1<<20)
	n := runtime.Stack(buf, true)
	return strings.Count(string(buf[:n]), "common.AsyncMapReduce")
}

func checkC20(c *C20Case) *ev.Failure {
	c20HookMu.Lock()
	defer c20HookMu.Unlock()

	n := c.N
	mapCalls := make([]int32, n)
	reduceCalls := make([]int32, n)
	var mapInflight, reduceInflight, maxReduceInflight int32
	var processed int32 // results or errors consumed by the reducer goroutine
	var reduceOnFailed, nestedBad int32
	gates := make([]chan struct{}, n)
	for i := range gates {
		gates[i] = make(chan struct{})
	}

	if verifhook.Enabled {
		verifhook.Set(func(p string) {
			switch p {
			case "amr.reducer.afterReduce", "amr.reducer.afterErr":
				atomic.AddInt32(&processed, 1)
			}
			if k := c.HookYield[p]; k > 0 {
				yieldN(k)
			}
		})
		defer verifhook.Set(nil)
	}

	type out struct {
		acc  []int
		errs gqlerrors.ErrorList
		// snapshot taken immediately at return
		mapInflight, reduceInflight int32
		reduced                     int32
	}
	done := make(chan out, 1)
	items := make([]int, n)
	for i := range items {
		items[i] = i
	}
	var reducedCount int32
	sharedErrs := make(gqlerrors.ErrorList, n)
	for i := range sharedErrs {
		sharedErrs[i] = gqlerrors.NewError("DOWNSTREAM", errors.New(c20ErrMsg(c, i)))
	}
	go func() {
		acc, errs := common.AsyncMapReduce(items, []int{}, func(i int) (int, error) {
			atomic.AddInt32(&mapInflight, 1)
			defer atomic.AddInt32(&mapInflight, -1)
			atomic.AddInt32(&mapCalls[i], 1)
			<-gates[i]
			if c.Nested > 0 {
				inner := make([]int, c.Nested)
				sum, ierr := common.AsyncMapReduce(inner, 0, func(int) (int, error) { runtime.Gosched(); return 1, nil }, func(a, v int) int { return a + v })
				if ierr != nil || sum != c.Nested {
					atomic.AddInt32(&nestedBad, 1)
				}
			}
			if i < len(c.MapYield) {
				yieldN(c.MapYield[i])
			}
			if c.Err[i] {
				if c.SharedErrs {
					return 0, sharedErrs[i : i+1]
				}
				if c.CtxErrs && i%3 == 1 {
					return 0, c20CtxErr(i)
				}
				if c.SameErr && i%2 == 0 {
					return 0, gqlerrors.NewError("FORBIDDEN", errors.New(c20ErrMsg(c, i)))
				}
				return 0, errors.New(c20ErrMsg(c, i))
			}
			return i, nil
		}, func(acc []int, v int) []int {
			cur := atomic.AddInt32(&reduceInflight, 1)
			for {
				m := atomic.LoadInt32(&maxReduceInflight)
				if cur <= m || atomic.CompareAndSwapInt32(&maxReduceInflight, m, cur) {
					break
				}
			}
			if v >= 0 && v < n {
				atomic.AddInt32(&reduceCalls[v], 1)
				if c.Err[v] {
					atomic.AddInt32(&reduceOnFailed, 1)
				}
				if v < len(c.ReduceYield) {
					yieldN(c.ReduceYield[v])
				}
			}
			acc = append(acc, v)
			atomic.AddInt32(&reducedCount, 1)
			atomic.AddInt32(&reduceInflight, -1)
			return acc
		})
		done <- out{acc: acc, errs: errs, mapInflight: atomic.LoadInt32(&mapInflight),
			reduceInflight: atomic.LoadInt32(&reduceInflight), reduced: atomic.LoadInt32(&reducedCount)}
	}()

	if c.Rendezvous {
		// all map functions must be able to run at the same time: wait until every one has been entered
		deadline := time.Now().Add(30 * time.Second)
		for atomic.LoadInt32(&mapInflight) < int32(n) {
			if time.Now().After(deadline) {
				for _, g := range gates {
					close(g)
				}
				return ev.Failf("deadlock", "only %d of %d map functions were started within 30s although none of them has returned (map functions that wait for each other never finish)", atomic.LoadInt32(&mapInflight), n)
			}
			runtime.Gosched()
		}
	}
	// scheduler: release groups in order
	released := 0
	for _, g := range c.Groups {
		for _, i := range g {
			close(gates[i])
		}
		released += len(g)
		if !c.NoWait && verifhook.Enabled {
			deadline := time.Now().Add(5 * time.Second)
			for atomic.LoadInt32(&processed) < int32(released) && time.Now().Before(deadline) {
				runtime.Gosched()
			}
		} else {
			runtime.Gosched()
		}
	}

	var o out
	select {
	case o = <-done:
	case <-time.After(20 * time.Second):
		buf := make([]byte, 1<<16)
		buf = buf[:runtime.Stack(buf, true)]
		if strings.Contains(string(buf), "common.AsyncMapReduce") {
			return ev.Failf("deadlock", "AsyncMapReduce did not return within 20s; goroutines:\n%s", buf)
		}
		return ev.Failf("deadlock", "AsyncMapReduce did not return within 20s")
	}

	wantOK := []int{}
	wantErr := []string{}
	for i := 0; i < n; i++ {
		if c.Err[i] {
			if c.CtxErrs && !c.SharedErrs && i%3 == 1 {
				wantErr = append(wantErr, c20CtxErr(i).Error())
				continue
			}
			wantErr = append(wantErr, c20ErrMsg(c, i))
		} else {
			wantOK = append(wantOK, i)
		}
	}
	if o.mapInflight != 0 || o.reduceInflight != 0 {
		return ev.Failf("early-return", "returned with map in flight=%d reduce in flight=%d", o.mapInflight, o.reduceInflight)
	}
	if int(o.reduced) != len(wantOK) {
		return ev.Failf("early-return", "at return %d reductions had completed, want %d", o.reduced, len(wantOK))
	}
	for i := 0; i < n; i++ {
		if mc := atomic.LoadInt32(&mapCalls[i]); mc != 1 {
			return ev.Failf("map-count", "map called %d times for item %d", mc, i)
		}
		want := int32(1)
		if c.Err[i] {
			want = 0
		}
		if rc := atomic.LoadInt32(&reduceCalls[i]); rc != want {
			return ev.Failf("reduce-count", "reduce called %d times for item %d (failed=%v)", rc, i, c.Err[i])
		}
	}
	if nestedBad != 0 {
		return ev.Failf("acc", "%d nested calls inside map functions returned a wrong result", nestedBad)
	}
	if reduceOnFailed != 0 {
		return ev.Failf("reduce-count", "reduce called for a failed item")
	}
	if m := atomic.LoadInt32(&maxReduceInflight); m > 1 {
		return ev.Failf("reduce-concurrent", "%d reduce calls in flight at once", m)
	}
	got := append([]int{}, o.acc...)
	sort.Ints(got)
	if fmt.Sprint(got) != fmt.Sprint(wantOK) {
		return ev.Failf("acc", "accumulator %v, want multiset %v", o.acc, wantOK)
	}
	gotErr := []string{}
	for _, e := range o.errs {
		gotErr = append(gotErr, e.Message)
	}
	sort.Strings(gotErr)
	sort.Strings(wantErr)
	if fmt.Sprint(gotErr) != fmt.Sprint(wantErr) {
		return ev.Failf("errors-lost", "errors %v, want multiset %v", gotErr, wantErr)
	}
	if len(wantErr) == 0 && o.errs != nil {
		return ev.Failf("errors-lost", "non-nil error list %v without failures", o.errs)
	}
	// what a call returned stays what it is: a later call (here: one whose items all fail) does not reach into it
	if len(o.errs) > 0 {
		verifhook.Set(nil)
		_, errs2 := common.AsyncMapReduce([]int{0, 1, 2, 3, 4, 5}, 0, func(i int) (int, error) { return 0, fmt.Errorf("later call %d", i) }, func(a, v int) int { return a + v })
		if len(errs2) != 6 {
			return ev.Failf("errors-lost", "a later call with 6 failing items returned %d errors", len(errs2))
		}
		after := []string{}
		for _, e := range o.errs {
			after = append(after, e.Message)
		}
		sort.Strings(after)
		if fmt.Sprint(after) != fmt.Sprint(wantErr) {
			return ev.Failf("errors-aliased", "the error list returned by a call changed when a later call failed: now %v, was %v", after, wantErr)
		}
	}
	// goroutine leak: nothing with AsyncMapReduce on its stack may remain
	deadline := time.Now().Add(20 * time.Second)
	for amrGoroutines() > 0 {
		if time.Now().After(deadline) {
			return ev.Failf("leak", "%d goroutine frames of common.AsyncMapReduce remain 20s after return", amrGoroutines())
		}
		time.Sleep(200 * time.Microsecond)
	}
	return nil
}

func genC20(t *rapid.T) *C20Case {
	maxN := 8
	if ev.Thorough() {
		maxN = 12
	}
	n := rapid.IntRange(0, maxN).Draw(t, "n")
	big := rapid.IntRange(0, 9).Draw(t, "big") == 0
	if big {
		n = rapid.SampledFrom([]int{40, 63, 64, 65, 100, 130, 200, 257}).Draw(t, "bign")
	}
	c := &C20Case{N: n, Err: make([]bool, n), ReduceYield: make([]int, n), MapYield: make([]int, n), HookYield: map[string]int{}}
	c.SameErr = rapid.IntRange(0, 3).Draw(t, "sameerr") == 0
	c.CtxErrs = rapid.IntRange(0, 3).Draw(t, "ctxerrs") == 0
	c.SharedErrs = rapid.IntRange(0, 3).Draw(t, "sharederrs") == 0
	for i := 0; i < n; i++ {
		c.Err[i] = rapid.IntRange(0, 2).Draw(t, "err") == 0
		c.ReduceYield[i] = rapid.IntRange(0, 3).Draw(t, "ry")
		c.MapYield[i] = rapid.IntRange(0, 3).Draw(t, "my")
	}
	perm := rapid.Permutation(seq(n)).Draw(t, "order")
	for len(perm) > 0 {
		k := 1
		if len(perm) > 1 && rapid.IntRange(0, 2).Draw(t, "grp") == 0 {
			k = rapid.IntRange(2, len(perm)).Draw(t, "k")
		}
		c.Groups = append(c.Groups, append([]int{}, perm[:k]...))
		perm = perm[k:]
	}
	for _, p := range c20Points {
		if rapid.IntRange(0, 3).Draw(t, "hy?") == 0 {
			c.HookYield[p] = rapid.IntRange(1, 3).Draw(t, "hy")
		}
	}
	c.NoWait = rapid.IntRange(0, 3).Draw(t, "nowait") == 0
	c.Rendezvous = rapid.IntRange(0, 3).Draw(t, "rendezvous") == 0
	if rapid.IntRange(0, 3).Draw(t, "nested") == 0 {
		c.Nested = rapid.IntRange(1, 3).Draw(t, "nestedn")
	}
	if big {
		// one group, released together: the fan-out is what matters here
		c.Groups = [][]int{seq(n)}
	}
	return c
}

func seq(n int) []int {
	r := make([]int, n)
	for i := range r {
		r[i] = i
	}
	return r
}

func c20Nontrivial(c *C20Case) bool {
	ok, bad := 0, 0
	for _, e := range c.Err {
		if e {
			bad++
		} else {
			ok++
		}
	}
	return c.N >= 2 && ok > 0 && bad > 0
}

func TestC20(t *testing.T) {
	if !verifhook.Enabled {
		t.Fatal("C20 needs -tags verif")
	}
	rec := ev.Get("C20")
	rec.Rule = "cases = (n in 0..8 [12 thorough], 10% n in {40..257}; error pattern; completion order as release groups; yields in map/reduce callbacks and at the 9 hook points; rendezvous: no map function returns before all are running; nested: every map function runs an inner AsyncMapReduce) drawn by rapid; non-trivial = n>=2 with at least one success and one failure; distinct by hash of the whole case. Plus exhaustive grid n<=4 x 2^n patterns x n! sequential completion orders (TestC20Grid)."
	rapid.Check(t, func(t *rapid.T) {
		c := genC20(t)
		ev.Current("C20", c)
		nt := c20Nontrivial(c)
		cls := []string{fmt.Sprintf("n=%d", minInt(c.N, 13))}
		if c.NoWait {
			cls = append(cls, "nowait")
		}
		if len(c.HookYield) > 0 {
			cls = append(cls, "hookPerturbed")
		}
		if len(c.Groups) < c.N {
			cls = append(cls, "simultaneousGroup")
		}
		if c.Rendezvous {
			cls = append(cls, "rendezvous")
		}
		if c.Nested > 0 {
			cls = append(cls, "nestedFanOut")
		}
		if c.N >= 40 {
			cls = append(cls, "n>=40")
		}
		rec.Case(ev.Hash(c), nt, cls...)
		rec.Sample(nt, func() interface{} { return c })
		if f := checkC20(c); f != nil {
			ev.WriteFail("C20", c, f)
			t.Fatalf("%v", f)
		}
	})
}

func permutations(a []int) [][]int {
	if len(a) <= 1 {
		return [][]int{append([]int{}, a...)}
	}
	var res [][]int
	for i := range a {
		rest := append(append([]int{}, a[:i]...), a[i+1:]...)
		for _, p := range permutations(rest) {
			res = append(res, append([]int{a[i]}, p...))
		}
	}
	return res
}

// TestC20Grid enumerates n<=4 x all error patterns x all sequential completion orders exhaustively.
func TestC20Grid(t *testing.T) {
	if !verifhook.Enabled {
		t.Fatal("C20 needs -tags verif")
	}
	rec := ev.Get("C20")
	count := 0
	for n := 0; n <= 4; n++ {
		for mask := 0; mask < 1<<n; mask++ {
			for _, perm := range permutations(seq(n)) {
				c := &C20Case{N: n, Err: make([]bool, n), ReduceYield: make([]int, n), MapYield: make([]int, n), HookYield: map[string]int{}}
				for i := 0; i < n; i++ {
					c.Err[i] = mask&(1<<i) != 0
					c.ReduceYield[i] = 1
				}
				for _, i := range perm {
					c.Groups = append(c.Groups, []int{i})
				}
				ev.Current("C20", c)
				nt := c20Nontrivial(c)
				rec.Case(ev.Hash(c), nt, "grid")
				if f := checkC20(c); f != nil {
					ev.WriteFail("C20", c, f)
					t.Fatalf("%v", f)
				}
				count++
			}
		}
	}
	rec.SetExtra("grid_cases", count)
	rec.SetExtra("grid_exhaustive", true)
}

func init() {
	replayers["C20"] = func(path string) (*ev.Failure, error) {
		var c C20Case
		if _, _, err := ev.LoadCase(path, &c); err != nil {
			return nil, err
		}
		if len(c.Err) != c.N {
			return nil, errors.New("bad case: len(err) != n")
		}
		return checkC20(&c), nil
	}
}
